#!/usr/bin/env python3
"""Regenerate MANIFEST.json from the table below (claims only properties whose check module exists)."""
import json, os
V = os.path.dirname(os.path.dirname(os.path.abspath(__file__)))
FIX = ["babe27c", "ced6fc6", "e9b1823", "f0f5ba3", "2237bfc", "96a183d", "ab1e880", "e2514d2", "6d455da", "c3884d2", "0bd9b8b", "cdfcb1e", "bb6eea0", "f378e6e", "911118e", "f0e6b77", "9092519", "fa8f720", "95d4304", "286b90f", "231ce29", "bf9f023", "e6eeb7f", "c0bf33e", "fbde650", "e7688fd", "5a0eaf2", "34fdbf2"]
P = {
 "C01": ("model_checking", "walk", "TLC exhaustive model check of Walk.tla (every database x root list in every order) + TLC-enumerated scenarios replayed into the real client + TLC batch trace validation (Trace_Walk.tla)",
         "TLC decides walk exactness on the implementation-shaped model for every database over a 7/9-instance universe and every list of <=3 disjoint roots in every order; the same scenarios (TLC's initial states) are replayed through Client.walk/multiwalk/bulkwalk and PyWrapper against a reference agent, and every recorded trace is judged by the TLC monitor (nothing outside the roots, no duplicate, no invented value, ascending for one root, complete at the end). Round 2: seeded large databases are also walked by GETBULK with repetitions 2..25 (subtrees exhausted in different rounds).",
         "reference agent (harness/refagent.py) is the environment; each of its answers is re-validated against spec/Agent.tla inside the monitor; bounds: <=9 instances / <=3 roots exhaustively, seeded random databases up to ~200 instances"),
 "C02": ("model_checking", "walk", "TLC exhaustive model check of Walk.tla with the GETBULK fetcher under every conformant truncation + scenario replay + TLC trace validation",
         "as C01 with max-repetitions 1..3(4) and every agent prefix choice at every request in the model; replay drives the real bulk walk under five reactive truncation policies and seeded bulk sizes up to 50; the monitor judges the bulk result against the same Strict/Opt sets that define the GETNEXT walk's result.",
         "equality with the GETNEXT walk is modulo instances equal to a root (C01 accepts both); conformant truncation = any prefix with >= 1 complete repetition"),
 "C03": ("model_checking", "walk", "TLC exhaustive model check of Walk.tla against every stateless faulty agent F + every F replayed reactively + TLC trace validation",
         "TLC explores every function F: requested OID -> OID|endOfMibView over a 5/6-OID universe, both fetchers, both error modes: request bound, no re-request, outcome mode; every F is replayed into walk/multiwalk/bulkwalk/table/bulktable under a request budget and judged by the monitor (budget, re-request, request after a detectable fault, strict/lenient outcome, spurious Faulty). Round 2: a nested universe {1.1, 1.1.1, 2.1} (answers that are proper prefixes of the requested OID) model-checked and replayed; lenient bulk walks through multiwalk(fetcher=...).",
         "stateless faulty agents only (the same question gets the same answer); bulk walks are judged by termination and no re-request (weaker reading, DESIGN 6/C03)"),
 "C04": ("model_checking", "ops", "TLC model check of Ops.tla + scenario replay of every operation + TLC trace validation (Trace_Ops.tla)", "", ""),
 "C05": ("exploration", "ber", "TLC evaluates the independent BER/SNMP decoder Ber.tla on every datagram the real client emitted (trace validation with a trivial state space)", "", ""),
 "C06": ("exploration", "ber", "TLC evaluates Ber.tla/Values.tla on every response fed to the real client and on what the caller got", "", ""),
 "C07": ("model_checking", "ops", "TLC model check of Ops.tla with an explicit clock + stepping-clock replay + TLC trace validation", "", ""),
 "C08": ("model_checking", "ops", "TLC model check of the error branch of Ops.tla + scripted error replies replayed + TLC trace validation", "", ""),
 "C09": ("model_checking", "usm", "TLC model check of Usm.tla against a Dolev-Yao attacker + concrete forgeries and bit flips replayed + TLC trace validation", "", ""),
 "C10": ("model_checking", "usm", "TLC model check of Usm.tla/UsmAgent.tla + independent RFC 3414 agent + TLC trace validation", "", ""),
 "C11": ("model_checking", "usm", "TLC model check of the privacy path of Usm.tla + recording stream plug-in + TLC trace validation", "", ""),
 "C12": ("model_checking", "usm", "TLC model check of timeliness histories (UsmTime.tla) + histories replayed under virtual clocks + TLC trace validation", "", ""),
 "C13": ("model_checking", "transport", "TLC model check of Transport.tla over all outcome scripts + virtual-time replay of the real send_udp + TLC trace validation", "", ""),
 "C14": ("model_checking", "concurrent", "TLC model check of Concurrent.tla + enumerated release orders replayed on a shared real client + TLC trace validation", "", ""),
 "C15": ("exploration", "pythonic", "TLC evaluates the shape algebra Pythonic.tla on recorded results of every wrapper operation", "", ""),
 "C16": ("model_checking", "walk", "TLC model check of Table.tla + every small table replayed through table/bulktable + TLC trace validation", "", ""),
 "C17": ("exploration", "ber", "TLC evaluates the reference definitions of Values.tla on observations of the real types", "", ""),
 "C18": ("model_checking", "config", "TLC model check of Config.tla over nested histories + histories replayed with real reconfigure blocks + TLC trace validation", "", ""),
 "C19": ("model_checking", "trap", "TLC model check of Trap.tla over datagram words + words replayed through the real listener callback + TLC trace validation", "", ""),
 "C20": ("fault_enumeration", "decoder", "TLC model check of the TLV cursor machine Decoder.tla + specification-guided mutation sweep under CPU/memory budgets + TLC trace validation", "", ""),
}
extra = {}
ex = os.path.join(V, "tools", "manifest_texts.json")
if os.path.exists(ex):
    extra = json.load(open(ex))
checks, na = [], []
for pid, (level, engine, tech, text, note) in P.items():
    if pid in extra:
        text, note = extra[pid].get("text", text), extra[pid].get("note", note)
    if not os.path.exists(os.path.join(V, "harness", "props", pid.lower() + ".py")):
        na.append(dict(property_id=pid, reason="no check registered in this revision yet (the TLA+ module and driver for it are still being built; see DESIGN.md section 6/%s)" % pid))
        continue
    checks.append(dict(property_id=pid, quick_cmd="./check %s --tier quick" % pid, thorough_cmd="./check %s --tier thorough" % pid,
                       evidence_file="evidence/%s.json" % pid, replay_cmd_template="./check %s --replay {path}" % pid, engine=engine,
                       level_claimed=dict(category=level, text=text or tech, design_ref="DESIGN.md section 6 / %s" % pid),
                       level_note=note or "see DESIGN.md section 6 / %s" % pid, technique=tech))
m = dict(version=1, setup_cmd="./setup.sh",
         hooks=dict(guard="PURESNMP_VERIF", enable="no source hook is needed: every observation point is an existing seam (Client(sender=), loop.create_datagram_endpoint, time.time, the puresnmp_plugins namespace); checks import /repo/src directly (editable install), so they always run the current working tree",
                    baseline_off_cmd="cd /repo && /venv/bin/python -m pytest -ra -q -p no:cacheprovider --timeout=900 --continue-on-collection-errors",
                    source_commits=[], add_only=True),
         engines=[dict(name="walk", path="spec/Walk.tla", serves_properties=["C01", "C02", "C03", "C16"], kind_free_text="TLA+ (Oid, Agent, WalkImpl, Walk, Table) + TLC; Trace_Walk/Trace_Table monitors; harness/drv_walk.py"),
                  dict(name="ops", path="spec/Ops.tla", serves_properties=["C04", "C07", "C08"], kind_free_text="TLA+ Ops + TLC; Trace_Ops monitor; harness/drv_ops.py"),
                  dict(name="ber", path="spec/Ber.tla", serves_properties=["C05", "C06", "C17"], kind_free_text="TLA+ BER/SNMP grammar evaluated by TLC over recorded datagrams"),
                  dict(name="usm", path="spec/Usm.tla", serves_properties=["C09", "C10", "C11", "C12"], kind_free_text="TLA+ USM / attacker / timeliness + TLC; reference RFC 3414 agent"),
                  dict(name="transport", path="spec/Transport.tla", serves_properties=["C13"], kind_free_text="TLA+ retry loop + TLC; virtual-time asyncio loop"),
                  dict(name="concurrent", path="spec/Concurrent.tla", serves_properties=["C14"], kind_free_text="TLA+ interleavings + TLC; gate scheduler"),
                  dict(name="config", path="spec/Config.tla", serves_properties=["C18"], kind_free_text="TLA+ configuration stack + TLC"),
                  dict(name="trap", path="spec/Trap.tla", serves_properties=["C19"], kind_free_text="TLA+ listener + TLC"),
                  dict(name="decoder", path="spec/Decoder.tla", serves_properties=["C20"], kind_free_text="TLA+ TLV cursor machine + TLC; budgeted mutation sweep"),
                  dict(name="pythonic", path="spec/Pythonic.tla", serves_properties=["C15"], kind_free_text="TLA+ shape algebra evaluated by TLC")],
         checks=checks,
         notes="fix commits in /repo (unguarded, one per defect): " + " ".join(FIX) + "; see known_findings.json and DESIGN.md section 10",
         not_applicable=na)
json.dump(m, open(os.path.join(V, "MANIFEST.json"), "w"), indent=1)
print("claimed:", [c["property_id"] for c in checks], "not applicable:", len(na))
