#!/usr/bin/env python3
"""Print the cost tables of DESIGN 13.1 from the logs of `./check all --tier quick|thorough`.
usage: tools/mktables.py work/quick_final.log work/thorough_final2.log"""
import re, sys

LINE = re.compile(r"^(C\d\d) tier=(\w+) seed=(\d+): (.*?), (\d+) violation\(s\), (\d+) known, ([0-9.]+)s")


def parse(path):
    out = {}
    for l in open(path, errors="replace"):
        m = LINE.match(l)
        if m:
            body = m.group(4)
            n = re.match(r"(\d+) (scenarios|observations|\w+)", body)
            out[m.group(1)] = dict(tier=m.group(2), s=float(m.group(7)), n=int(n.group(1)) if n else 0, body=body, viol=int(m.group(5)))
    return out


def main():
    q, t = parse(sys.argv[1]), parse(sys.argv[2])
    ids = sorted(q)
    print("| id | s | scenarios | | id | s | scenarios | | id | s | scenarios | | id | s | scenarios |")
    print("|---|---|---|---|---|---|---|---|---|---|---|---|---|---|---|")
    for r in range(5):
        cells = []
        for c in range(4):
            i = ids[c * 5 + r] if c * 5 + r < len(ids) else None
            cells.append("| %s | %d | %s |" % (i, round(q[i]["s"]), format(q[i]["n"], ",").replace(",", " ")) if i else "| | | |")
        print(" ".join(cells).replace("| |", "| |"))
    print("quick total: %d s" % sum(v["s"] for v in q.values()))
    print()
    print("| id | s | scenarios |")
    print("|---|---|---|")
    for i in sorted(t):
        print("| %s | %d | %s |" % (i, round(t[i]["s"]), format(t[i]["n"], ",").replace(",", " ")))
    print("thorough total: %d s" % sum(v["s"] for v in t.values()))


if __name__ == "__main__":
    main()
