#!/usr/bin/env python3
"""Apply a behaviour-preserving refactoring to /repo, run the given quick checks (all must exit 0), undo it.
usage: tools/benigntest.py benign/R1-r1 C01 C02 ...     (checks default to all twenty)"""
import json, os, subprocess, sys
d = sys.argv[1]
checks = sys.argv[2:] or ["C%02d" % i for i in range(1, 21)]
def sh(cmd):
    return subprocess.run(cmd, shell=True, capture_output=True, text=True)
assert sh("git -C /repo status --porcelain").stdout.strip() == "", "/repo not clean"
a = sh("git -C /repo apply %s/patch.diff" % os.path.abspath(d)); assert a.returncode == 0, a.stderr
res = {}
try:
    t = sh("cd /repo && /venv/bin/python -m pytest -q -p no:cacheprovider 2>&1 | tail -1").stdout.strip()
    res["tests"] = t
    for c in checks:
        r = sh("cd /verif && ./check %s --tier quick" % c)
        lines = [l[:300] for l in r.stdout.splitlines() if l.startswith(("VIOLATION", "MACHINERY", "NOTE spec-drift"))]
        res[c] = dict(rc=r.returncode, lines=lines[:3])
        print(os.path.basename(d), c, "rc=%d" % r.returncode, "|", " || ".join(l[:160] for l in lines[:2]), flush=True)
finally:
    sh("git -C /repo checkout -- . && git -C /repo clean -fdq src")
    assert sh("git -C /repo status --porcelain").stdout.strip() == "", "/repo not clean after"
    sh("cd /verif && git checkout -- evidence 2>/dev/null; git clean -fdq replay 2>/dev/null")
json.dump(res, open(os.path.join(d, "result.json"), "w"), indent=1)
bad = [c for c in checks if res.get(c, {}).get("rc") != 0]
print(os.path.basename(d), "tests:", res.get("tests"), "FALSE ALARMS:" if bad else "no alarm", bad)
