#!/bin/sh
# Run every seeded change against the check of the property it was written for (quick tier); prints one line per change.
cd /verif
for d in seeded/C*; do
  p=$(basename $d | cut -d- -f1)
  python3 tools/seedtest.py $d $p 2>&1 | cut -c1-160
done
git -C /verif checkout -- evidence 2>/dev/null
git -C /verif clean -fdq replay 2>/dev/null
