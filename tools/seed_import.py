#!/usr/bin/env python3
"""Confirm a sub-agent's seeded change in a fresh scratch worktree and keep it under /verif/seeded/<id>/.
usage: tools/seed_import.py /tmp/wt/C01/_seeded/m1 C01-m1"""
import json, os, shutil, subprocess, sys
src, name = sys.argv[1], sys.argv[2]
wt = "/tmp/seedcheck-%s" % name
def sh(cmd, **kw):
    return subprocess.run(cmd, shell=True, capture_output=True, text=True, **kw)
sh("git -C /repo worktree remove --force %s" % wt)
r = sh("git -C /repo worktree add -q --detach %s HEAD" % wt); assert r.returncode == 0, r.stderr
try:
    env = "cd %s && PYTHONPATH=%s/src " % (wt, wt)
    os.makedirs(wt + "/_seeded/x", exist_ok=True)
    shutil.copy(src + "/demo.py", wt + "/_seeded/x/demo.py")
    clean = sh(env + "/venv/bin/python _seeded/x/demo.py")
    a = sh("cd %s && git apply %s/patch.diff" % (wt, src)); assert a.returncode == 0, a.stderr
    tests = sh(env + "/venv/bin/python -m pytest -q -p no:cacheprovider 2>&1 | tail -1")
    broken = sh(env + "/venv/bin/python _seeded/x/demo.py")
    ok = clean.returncode == 0 and broken.returncode == 1 and "174 passed" in tests.stdout
    print(name, "clean rc", clean.returncode, "patched rc", broken.returncode, "tests:", tests.stdout.strip(), "=> KEEP" if ok else "=> REJECT")
    if ok:
        dst = "/verif/seeded/%s" % name
        os.makedirs(dst, exist_ok=True)
        shutil.copy(src + "/patch.diff", dst); shutil.copy(src + "/demo.py", dst)
        meta = json.load(open(src + "/meta.json"))
        meta["confirmed"] = dict(worktree="fresh scratch worktree of /repo HEAD %s" % sh("git -C /repo rev-parse --short HEAD").stdout.strip(),
                                 ran=["demo.py on clean tree -> exit 0", "git apply patch.diff", "pytest -> " + tests.stdout.strip(), "demo.py with patch -> exit 1"],
                                 demo_output_with_patch=broken.stdout[-600:])
        json.dump(meta, open(dst + "/meta.json", "w"), indent=1)
finally:
    sh("git -C /repo worktree remove --force %s" % wt)
