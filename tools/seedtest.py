#!/usr/bin/env python3
"""Apply a seeded change to /repo, run the given checks (quick), undo it straight afterwards.
usage: tools/seedtest.py seeded/C01-m1 C01 [C02 ...]   -> prints per check: rc and VIOLATION lines"""
import json, os, subprocess, sys
d, checks = sys.argv[1], sys.argv[2:]
tier = os.environ.get("SEED_TIER", "quick")
def sh(cmd):
    return subprocess.run(cmd, shell=True, capture_output=True, text=True)
assert sh("git -C /repo status --porcelain").stdout.strip() == "", "/repo not clean"
a = sh("git -C /repo apply %s/patch.diff" % os.path.abspath(d)); assert a.returncode == 0, a.stderr
res = {}
try:
    for c in checks:
        r = sh("cd /verif && ./check %s --tier %s" % (c, tier))
        lines = [l for l in r.stdout.splitlines() if l.startswith(("VIOLATION", "MACHINERY", "NOTE spec-drift"))]
        res[c] = dict(rc=r.returncode, lines=[l[:260] for l in lines[:4]])
        print(os.path.basename(d), c, "rc=%d" % r.returncode, "|", " || ".join(l[:200] for l in lines[:3]))
finally:
    sh("git -C /repo checkout -- . && git -C /repo clean -fdq src")
    assert sh("git -C /repo status --porcelain").stdout.strip() == "", "/repo not clean after"
    sh("cd /verif && git checkout -- evidence 2>/dev/null")
json.dump(res, open(os.path.join(d, "detected.json"), "w"), indent=1)
