#!/usr/bin/env python3
"""Run seeded changes / refactorings against quick checks in N parallel lanes, each lane with its own scratch worktree of /repo
(under /tmp, removed afterwards) and its own copy of /verif's machinery, so that /repo itself is never touched.
usage: tools/lanes.py seeded [N]      every seeded/Cxx-mK against the check Cxx        -> seeded/*/detected.json
       tools/lanes.py benign [N]      every benign/Rx-rK against its family's checks   -> benign/*/result.json
(the official single-lane tools - seedtest.py / benigntest.py - apply to /repo itself; this is the same procedure, faster)"""
import json, os, subprocess, sys, threading, queue

FAMILY = {"R1": "C01 C02 C03 C16 C07 C08", "R2": "C04 C05 C06 C07 C08 C20", "R3": "C09 C10 C11 C12 C05 C14 C20 C07", "R4": "C13 C20 C19 C07",
          "R5": "C14 C15 C18 C05 C11 C19", "R6": "C17 C06 C05 C15 C20 C10",
          # P*: changes that alter observable behaviour but keep all twenty properties (wider check lists)
          "P1": "C01 C02 C03 C16 C08 C07 C15", "P2": "C04 C05 C06 C07 C08 C14 C20 C19", "P3": "C09 C10 C11 C12 C14 C05 C20 C18",
          "P4": "C13 C19 C14 C20 C07", "P5": "C15 C18 C05 C11 C14 C16 C19", "P6": "C17 C06 C15 C20 C05 C19 C16 C04",
          "Q1": "C01 C02 C03 C16 C08 C07 C15", "Q2": "C04 C05 C06 C07 C08 C14 C20 C19", "Q3": "C09 C10 C11 C12 C14 C05 C20 C18",
          "Q4": "C13 C19 C14 C20 C07", "Q5": "C15 C18 C05 C11 C14 C16 C19 C12", "Q6": "C17 C06 C15 C20 C05 C19 C16 C04",
          # S*: third generation of such changes (aimed at what a monitor may have over-fitted to)
          "S1": "C01 C02 C03 C16 C08 C07 C15 C04", "S2": "C04 C05 C06 C07 C08 C14 C20 C19", "S3": "C09 C10 C11 C12 C14 C05 C20 C18",
          "S4": "C13 C19 C14 C20 C07 C18", "S5": "C15 C18 C05 C11 C14 C16 C19 C12", "S6": "C17 C06 C15 C20 C05 C19 C16 C04"}


def sh(cmd, **kw):
    return subprocess.run(cmd, shell=True, capture_output=True, text=True, **kw)


def lane_setup(i):
    d = "/tmp/lane%d" % i
    sh("git -C /repo worktree remove --force %s/repo; rm -rf %s" % (d, d))
    os.makedirs(d)
    r = sh("git -C /repo worktree add -q --detach %s/repo HEAD" % d)
    assert r.returncode == 0, r.stderr
    sh("rsync -a --exclude .git --exclude work --exclude evidence --exclude replay --exclude seeded --exclude benign /verif/ %s/verif/" % d)
    for sub in ("work", "evidence", "replay"):
        os.makedirs("%s/verif/%s" % (d, sub), exist_ok=True)
    return d


def lane_teardown(i):
    d = "/tmp/lane%d" % i
    sh("git -C /repo worktree remove --force %s/repo; rm -rf %s; git -C /repo worktree prune" % (d, d))


def run_job(d, patch, checks):
    repo = d + "/repo"
    sh("git -C %s reset -q --hard" % repo)
    a = sh("git -C %s apply %s" % (repo, patch))
    res = {}
    if a.returncode != 0:
        return {"_apply": dict(rc=9, lines=[a.stderr[:200]])}
    try:
        t = sh("cd %s && PYTHONPATH=%s/src /venv/bin/python -m pytest -q -p no:cacheprovider 2>&1 | tail -1" % (repo, repo)).stdout.strip()
        res["tests"] = t
        for c in checks:
            r = sh("cd %s/verif && PYTHONPATH=%s/src ./check %s --tier quick" % (d, repo, c))
            lines = [l[:260] for l in r.stdout.splitlines() if l.startswith(("VIOLATION", "MACHINERY", "NOTE spec-drift"))]
            res[c] = dict(rc=r.returncode, lines=lines[:4])
    finally:
        sh("git -C %s reset -q --hard && git -C %s clean -fdq src" % (repo, repo))
    return res


def main():
    kind = sys.argv[1]
    n = int(sys.argv[2]) if len(sys.argv) > 2 else 3
    only = sys.argv[3:]
    jobs = queue.Queue()
    if kind == "seeded":
        for name in sorted(os.listdir("/verif/seeded")):
            if os.path.isdir("/verif/seeded/" + name) and (not only or name in only or name.split("-")[0] in only):
                jobs.put((name, "/verif/seeded/%s/patch.diff" % name, [name.split("-")[0]], "/verif/seeded/%s/detected.json" % name))
    else:
        for name in sorted(os.listdir("/verif/benign")):
            if os.path.isdir("/verif/benign/" + name) and (not only or name in only):
                jobs.put((name, "/verif/benign/%s/patch.diff" % name, FAMILY[name.split("-")[0]].split(), "/verif/benign/%s/result.json" % name))
    lock = threading.Lock()

    def worker(i):
        d = lane_setup(i)
        try:
            while True:
                try:
                    name, patch, checks, out = jobs.get_nowait()
                except queue.Empty:
                    return
                res = run_job(d, patch, checks)
                json.dump(res, open(out, "w"), indent=1)
                with lock:
                    if kind == "seeded":
                        c = checks[0]
                        r = res.get(c, res.get("_apply", {}))
                        print(name, c, "rc=%s" % r.get("rc"), "|", (r.get("lines") or [""])[0][:150], flush=True)
                    else:
                        bad = [c for c in checks if res.get(c, {}).get("rc") != 0]
                        print(name, "tests:", res.get("tests"), "FALSE ALARMS:" if bad else "no alarm", bad, flush=True)
        finally:
            lane_teardown(i)
    ts = [threading.Thread(target=worker, args=(i,)) for i in range(n)]
    for t in ts:
        t.start()
    for t in ts:
        t.join()


if __name__ == "__main__":
    main()
