#!/venv/bin/python
"""Binding demonstration: take traces of the real code that the monitors accept, corrupt ONE recorded field or drop ONE event,
and show that the monitor rejects the corrupted trace with the expected clause.  (The other half of the demonstration -
source changes that the checks must report - is tools/seed_all.sh over seeded/.)   usage: tools/selftest.py"""
import asyncio, copy, json, os, sys
V = os.path.dirname(os.path.dirname(os.path.abspath(__file__)))
sys.path.insert(0, os.path.join(V, "harness"))
os.environ.setdefault("PYTHONHASHSEED", "0")
import tlc, drv_walk, drv_ops, drv_udp, drv_ber, drv_config, drv_time

fails = 0


def expect(module, traces, wanted, constants=None, spec="Spec"):
    global fails
    cfg = tlc.write_cfg("selftest_" + module, constants=constants, spec=spec)
    v = tlc.validate_traces(module, cfg, traces, name="selftest")["verdicts"]
    for i, w in enumerate(wanted):
        got = v[i + 1][0]
        ok = got == w or (w.endswith("*") and got.startswith(w[:-1]))
        print("  %-16s trace %d: wanted %-40s got %-40s %s" % (module, i + 1, w, got, "ok" if ok else "MISMATCH"))
        fails += 0 if ok else 1


# ---- walk (C01-C03)
t = drv_walk.run_all([dict(db=[[1, 1], [1, 2], [2, 1]], roots=[[1]], bulk=0, api="walk", proto="v2c")])[0]
a = copy.deepcopy(t); a["events"] = [e for e in a["events"] if not (e["e"] == "yield" and e["oid"] == [1, 2])]
b = copy.deepcopy(t); [e for e in b["events"] if e["e"] == "yield"][0]["val"] = 4242
c = copy.deepcopy(t); c["events"].insert(3, dict(e="yield", oid=[2, 1], val=2001))
d = copy.deepcopy(t); [e for e in d["events"] if e["e"] == "resp"][0]["vbs"][0][0] = [1, 2]
expect("Trace_Walk", [t, a, b, c, d], ["ok", "missing_instance", "yield_invented", "yield_outside_roots", "MACHINERY_agent_answer_conformant"])
# ---- ops (C04 C07 C08)
db = [[[1, 1], ["Integer", 11]], [[1, 2], ["OctetString", 12]]]
t = drv_ops.run_all([dict(op="multiget", oids=[[1, 1], [1, 2]], db=db, proto="v2c", nr=0, mr=0)])[0]
a = copy.deepcopy(t); a["events"][-1]["data"][1] = ["OctetString", 13]
b = copy.deepcopy(t); [e for e in b["events"] if e["e"] == "resp"][0]["reqid"] = "999"
c = copy.deepcopy(t); [e for e in c["events"] if e["e"] == "req"][0]["oids"] = [[1, 2], [1, 1]]
expect("Trace_Ops", [t, a, b, c], ["ok", "get_value_mismatch", "accepted_wrong_id", "request_mismatch_oids"])
# ---- transport (C13)
t = drv_udp.run_virtual(("none", "reply"), 2, 2)
a = copy.deepcopy(t); a["events"] = [e for e in a["events"] if not (e["e"] == "abort")]
b = copy.deepcopy(t); [e for e in b["events"] if e["e"] == "ret"][0]["data"][0] ^= 1
c = copy.deepcopy(t); [e for e in c["events"] if e["e"] == "sendto"][1]["t"] += 500
expect("Trace_Transport", [t, a, b, c], ["ok", "socket_left_open", "reply_modified", "waited_not_timeout"])
# ---- BER (C05)
ev, _ = asyncio.run(drv_ber.emit_case(dict(proto="v2c", op="multiget", oids=[(1, 3, 6, 1, 2, 1, 1, 1, 0)], reqid=1000)))
t = dict(scenario={}, events=ev)
a = copy.deepcopy(t); a["events"][0]["raw"][-1] ^= 0xFF            # the NULL's length octet
b = copy.deepcopy(t); a2 = b["events"][0]["intended"]; a2["community"] = list(b"private")
c = copy.deepcopy(t); c["events"][0]["raw"] = c["events"][0]["raw"][:-1]
expect("Trace_Ber", [t, a, b, c], ["ok", "malformed_ber:*", "community", "malformed_ber:*"])
# ---- configuration (C18)
t = drv_config.run_all([[("req",), ("block", {"timeout": 1}, [("req",)], "normal"), ("req",)]])[0]
a = copy.deepcopy(t); [e for e in a["events"] if e["e"] == "request"][1]["timeout"] = 6
b = copy.deepcopy(t); [e for e in b["events"] if e["e"] == "request"][2]["timeout"] = 1
expect("Trace_Config", [t, a, b], ["ok", "override_not_applied:timeout", "not_restored:timeout"])
# ---- timeliness (C12)
sc = dict(level="auth", hash="md5", authpw=b"maplesyrup", privpw=b"x", history=["op", 200, "op"])
t = drv_time.run_all([sc])[0]
a = copy.deepcopy(t); [e for e in a["events"] if e["e"] == "op"][1]["reqs"][0]["time"] -= 200
expect("Trace_UsmTime", [t, a], ["ok", "outside_time_window"])
print("selftest: %s" % ("all corrupted traces were rejected with the expected clause" if not fails else "%d MISMATCHES" % fails))
sys.exit(1 if fails else 0)
