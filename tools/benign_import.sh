#!/bin/sh
# tools/benign_import.sh <worktree> <family>   e.g. /tmp/wt7/S4 S4 : keep a sub-agent's property-preserving changes under benign/
set -e
wt=$1; fam=$2
for d in "$wt"/_changes/c*; do
  k=$(basename "$d"); out=/verif/benign/$fam-$k
  git -C "$wt" apply --check "$d/patch.diff" || { echo "does not apply: $d"; continue; }
  mkdir -p "$out"; cp "$d/patch.diff" "$d/meta.json" "$out/"
  echo "kept $out"
done
