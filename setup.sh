#!/bin/sh
# Build/verify the framework from files on disk only (offline).  Run once in /verif after a fresh restore.
set -e
cd "$(dirname "$0")"
mkdir -p work evidence replay
command -v java >/dev/null || { echo "java missing"; exit 1; }
test -f /opt/veriftools/tla/tla2tools.jar || { echo "tla2tools.jar missing"; exit 1; }
test -x /venv/bin/python || { echo "/venv/bin/python missing"; exit 1; }
# parse every specification module once (SANY); fail early on a syntax / semantic error
cd spec
for f in *.tla; do   # (spec/apalache/*.tla are parsed by apalache-mc when C12 / C13 run)
  java -cp /opt/veriftools/tla/tla2tools.jar:/opt/veriftools/tla/CommunityModules-deps.jar tla2sany.SANY "$f" > ../work/sany.log 2>&1 || { cat ../work/sany.log; echo "SANY failed on $f"; exit 1; }
  grep -q "Semantic errors\|Parse Error\|Fatal" ../work/sany.log && { cat ../work/sany.log; echo "SANY errors in $f"; exit 1; }
done
cd ..
PYTHONPATH=harness /venv/bin/python -c "import refber, refagent, tlc, framework; import puresnmp, x690; print('harness ok, puresnmp from', puresnmp.__file__)"
echo "setup ok"
