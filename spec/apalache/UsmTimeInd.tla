---- MODULE UsmTimeInd ----
(* Unbounded version of UsmTime.tla for Apalache: the agent clock advances by ANY d >= 0 (seconds to days and beyond),
   boots and times are unbounded integers.  IndInv is inductive:  Init => IndInv  and  IndInv /\ Next => IndInv'.
   It implies the timeliness part of C12 for the fixed design (bb6eea0 + 95d4304): whenever the client has heard from the
   agent since its last reboot, the boots/time it would send are exactly the agent's, hence inside the 150 s window;
   a request issued right after a reboot fails at most once. *)
EXTENDS Integers
VARIABLES
  \* @type: Int;
  ab,
  \* @type: Int;
  at,
  \* @type: Int;
  now,
  \* @type: Bool;
  lcSet,
  \* @type: Int;
  lcBoots,
  \* @type: Int;
  lcTime,
  \* @type: Int;
  lcAt,
  \* @type: Bool;
  rebootPending,
  \* @type: Int;
  failsSinceReboot

Init == /\ ab = 1 /\ at = 1000 /\ now = 0 /\ lcSet = FALSE /\ lcBoots = 0 /\ lcTime = 0 /\ lcAt = 0
        /\ rebootPending = FALSE /\ failsSinceReboot = 0
Advance == \E d \in Nat : /\ now' = now + d /\ at' = at + d
                          /\ UNCHANGED <<ab, lcSet, lcBoots, lcTime, lcAt, rebootPending, failsSinceReboot>>
Reboot == /\ ab' = ab + 1 /\ at' = 0 /\ rebootPending' = lcSet /\ failsSinceReboot' = 0
          /\ UNCHANGED <<now, lcSet, lcBoots, lcTime, lcAt>>
Request ==
  LET d0Boots == IF lcSet THEN lcBoots ELSE ab
      d0Time  == IF lcSet THEN lcTime ELSE at
      d0At    == IF lcSet THEN lcAt ELSE now
      sentTime == d0Time + (now - d0At)
      diff == sentTime - at
      ok == d0Boots = ab /\ diff <= 150 /\ -diff <= 150
      \* RFC 3414 3.2 7b, plus: an authentic notInTimeWindow report (sent exactly when ~ok) is taken at its word
      newer == ab > d0Boots \/ (ab = d0Boots /\ at > d0Time) \/ ~ok
  IN /\ lcSet' = TRUE
     /\ lcBoots' = IF newer THEN ab ELSE d0Boots
     /\ lcTime' = IF newer THEN at ELSE d0Time
     /\ lcAt' = IF newer THEN now ELSE d0At
     /\ failsSinceReboot' = IF ok THEN failsSinceReboot ELSE failsSinceReboot + 1
     /\ rebootPending' = FALSE
     /\ UNCHANGED <<ab, at, now>>
Next == Advance \/ Reboot \/ Request

\* the client's estimate of the agent's clock
Estimate == lcTime + (now - lcAt)
IndInv ==
  /\ ab >= 1 /\ at >= 0 /\ now >= 0 /\ failsSinceReboot >= 0 /\ failsSinceReboot <= 1
  /\ (lcSet => lcAt <= now)
  /\ ((lcSet /\ ~rebootPending) => (lcBoots = ab /\ Estimate = at))
  /\ ((lcSet /\ rebootPending) => (lcBoots < ab /\ failsSinceReboot = 0))
  /\ (~lcSet => (~rebootPending /\ failsSinceReboot = 0))
IndInit == /\ ab \in Int /\ at \in Int /\ now \in Int /\ lcSet \in BOOLEAN /\ lcBoots \in Int /\ lcTime \in Int /\ lcAt \in Int
           /\ rebootPending \in BOOLEAN /\ failsSinceReboot \in Int
           /\ IndInv
\* what C12 asks for (implied by IndInv and one step): a request fails only right after a reboot, and then at most once
OnlyAfterReboot == failsSinceReboot <= 1
====
