---- MODULE TransportInd ----
(* Unbounded version of Transport.tla for Apalache: ANY number of retries >= 1 (the bounded model checks 1..4) and a
   nondeterministic outcome for every attempt instead of a script chosen up front.  Sockets are counted (opened / closed),
   the timeout is the constant T.  IndInv is inductive and implies the C13 clauses for the fixed design (ab1e880):
   at most `retries` transmissions, Timeout exactly when every attempt went unanswered and then at time retries * T,
   and no socket open once the call has returned or raised. *)
EXTENDS Integers
T == 6
VARIABLES
  \* @type: Int;
  retries,
  \* @type: Int;
  left,
  \* @type: Int;
  opened,
  \* @type: Int;
  closed,
  \* @type: Int;
  sent,
  \* @type: Int;
  now,
  \* @type: Bool;
  allUnanswered,
  \* @type: Str;
  pc,
  \* @type: Str;
  outcome

Init == /\ retries \in { n \in Int : n >= 1 } /\ left = retries /\ opened = 0 /\ closed = 0 /\ sent = 0 /\ now = 0
        /\ allUnanswered = TRUE /\ pc = "loop" /\ outcome = "pending"
OpenAndSend == /\ pc = "loop" /\ left > 0 /\ opened' = opened + 1 /\ sent' = sent + 1 /\ pc' = "wait"
               /\ UNCHANGED <<retries, left, closed, now, allUnanswered, outcome>>
Answered(kind, o) == /\ now' = now + 3 /\ closed' = closed + 1 /\ allUnanswered' = FALSE /\ outcome' = o /\ pc' = "done" /\ UNCHANGED left
Wait == /\ pc = "wait"
        /\ \/ Answered("reply", "result")                 \* datagram_received: close
           \/ Answered("icmp", "OSError")                 \* error_received: the finally block closes
           \/ Answered("lost", "OSError")                 \* connection_lost(exc)
           \/ /\ now' = now + T /\ closed' = closed + 1     \* timeout: abort
              /\ IF left = 1 THEN outcome' = "Timeout" /\ pc' = "done" /\ left' = left
                 ELSE outcome' = outcome /\ pc' = "loop" /\ left' = left - 1
              /\ UNCHANGED allUnanswered
        /\ UNCHANGED <<retries, opened, sent>>
Done == pc = "done" /\ UNCHANGED <<retries, left, opened, closed, sent, now, allUnanswered, pc, outcome>>
Next == OpenAndSend \/ Wait \/ Done

Attempts == retries - left          \* completed unanswered attempts while looping
IndInv ==
  /\ retries >= 1 /\ left >= 1 /\ left <= retries
  /\ pc \in {"loop", "wait", "done"} /\ outcome \in {"pending", "result", "OSError", "Timeout"}
  /\ sent = opened /\ sent <= retries
  /\ (pc = "loop" => (closed = opened /\ opened = Attempts /\ allUnanswered /\ now = Attempts * T /\ outcome = "pending"))
  /\ (pc = "wait" => (closed = opened - 1 /\ opened = Attempts + 1 /\ allUnanswered /\ now = Attempts * T /\ outcome = "pending"))
  /\ (pc = "done" => (closed = opened /\ outcome # "pending"))
  /\ ((pc = "done" /\ outcome = "Timeout") => (allUnanswered /\ sent = retries /\ now = retries * T))
  /\ ((pc = "done" /\ outcome # "Timeout") => ~allUnanswered)
IndInit == /\ retries \in Int /\ left \in Int /\ opened \in Int /\ closed \in Int /\ sent \in Int /\ now \in Int
           /\ allUnanswered \in BOOLEAN /\ pc \in {"loop", "wait", "done"} /\ outcome \in {"pending", "result", "OSError", "Timeout"}
           /\ IndInv
NoSocketLeftOpen == pc = "done" => opened = closed
BoundedRetries == sent <= retries
TimeoutExactly == pc = "done" => ((outcome = "Timeout") <=> allUnanswered)
TimeoutAtRetriesTimesTimeout == (pc = "done" /\ outcome = "Timeout") => now = retries * T
====
