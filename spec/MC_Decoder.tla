---- MODULE MC_Decoder ----
EXTENDS Decoder
\* header classes: constructed tag (0x30), primitive tags (0x02, 0x04), short lengths 0..3, indefinite 0x80, long-form prefixes 0x81 0x82, reserved 0xFF
AlphaQ == {48, 2, 0, 1, 3, 128, 129, 255}
AlphaT == {48, 2, 4, 0, 1, 2, 3, 128, 129, 130, 255}
====
