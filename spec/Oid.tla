---- MODULE Oid ----
(* OIDs are finite sequences of naturals.  Lexicographic order, sub-tree
   containment and successor in a finite set -- the vocabulary shared by every
   behavioural layer of the puresnmp specification. *)
EXTENDS Naturals, Sequences, FiniteSets, SequencesExt, FiniteSetsExt

RECURSIVE OidLess(_, _)
OidLess(a, b) == IF a = <<>> THEN b # <<>>
                 ELSE IF b = <<>> THEN FALSE
                 ELSE IF Head(a) < Head(b) THEN TRUE
                 ELSE IF Head(a) > Head(b) THEN FALSE
                 ELSE OidLess(Tail(a), Tail(b))
OidLeq(a, b) == a = b \/ OidLess(a, b)

\* x690: `o in r`  <=>  r is a prefix of o (equality included)
OidIn(r, o) == Len(r) <= Len(o) /\ SubSeq(o, 1, Len(r)) = r
StrictlyBelow(r, o) == OidIn(r, o) /\ o # r
Disjoint(a, b) == ~OidIn(a, b) /\ ~OidIn(b, a)
PairwiseDisjoint(rs) == \A i, j \in DOMAIN rs : i # j => Disjoint(rs[i], rs[j])

HasNext(db, o) == \E d \in db : OidLess(o, d)
NextOid(db, o) == CHOOSE d \in db : OidLess(o, d) /\ \A e \in db : OidLess(o, e) => ~OidLess(e, d)

SortOids(s) == SortSeq(s, OidLess)
IsSortedStrict(s) == \A i, j \in DOMAIN s : i < j => OidLess(s[i], s[j])

RECURSIVE SeqOidLess(_, _)        \* lexicographic order on sequences of OIDs (Python list comparison)
SeqOidLess(a, b) == IF a = <<>> THEN b # <<>>
                    ELSE IF b = <<>> THEN FALSE
                    ELSE IF OidLess(Head(a), Head(b)) THEN TRUE
                    ELSE IF OidLess(Head(b), Head(a)) THEN FALSE
                    ELSE SeqOidLess(Tail(a), Tail(b))
RECURSIVE Flatten(_)
Flatten(ss) == IF ss = <<>> THEN <<>> ELSE Head(ss) \o Flatten(Tail(ss))

\* what a walk of `roots` over database `db` must / may deliver (C01, C02, C16)
StrictSet(db, roots) == { o \in db : \E j \in DOMAIN roots : StrictlyBelow(roots[j], o) }
OptSet(db, roots)    == { o \in db : \E j \in DOMAIN roots : o = roots[j] }
====
