---- MODULE Config ----
(* Client configuration: configure (permanent), reconfigure (temporary, a context manager that saves
   (config, mpm), applies the override and restores both in `finally`), and what a request observes:
   timeout and retries reach the sender, the credentials choose community / user, and the message
   processing model in use (v1 / v2c / v3) decides the protocol version on the wire.
   Transcribed from src/puresnmp/api/raw.py: Client.configure, Client.reconfigure, Client._send.
   PinIsInstance: configure compares credential families with isinstance (V2C subclasses V1)
   PinRestoreCfgOnly: leaving a block restores config but not the mpm          (self-test deviations) *)
EXTENDS Naturals, Sequences, FiniteSets, TLC
CONSTANTS MaxDepth, MaxLen, PinIsInstance, PinRestoreCfgOnly
Timeouts == {6, 1}
Retries == {10, 2}
Creds == {"v2c:a", "v2c:b", "v1:a", "v3:u", "v3:w"}
Family(c) == CASE c \in {"v2c:a", "v2c:b"} -> "v2c" [] c = "v1:a" -> "v1" [] OTHER -> "v3"
\* Python: type(old) != type(new); pinned variant: not isinstance(new, type(old)) where V2C is a subclass of V1
TypeDiffers(old, new) == IF PinIsInstance THEN ~(Family(new) = Family(old) \/ (Family(old) = "v1" /\ Family(new) = "v2c"))
                         ELSE Family(old) # Family(new)
\* an override names any non-empty subset of the settings (0 / "-" = not given)
Overrides == { kv \in [timeout : Timeouts \cup {0}, retries : Retries \cup {0}, creds : Creds \cup {"-"}] :
                 kv.timeout # 0 \/ kv.retries # 0 \/ kv.creds # "-" }
VARIABLES cfg, mpm, stack, steps, lastObs
vars == <<cfg, mpm, stack, steps, lastObs>>
Apply(c, kv) == [timeout |-> IF kv.timeout = 0 THEN c.timeout ELSE kv.timeout,
                 retries |-> IF kv.retries = 0 THEN c.retries ELSE kv.retries,
                 creds |-> IF kv.creds = "-" THEN c.creds ELSE kv.creds]
NewMpm(c, m, kv) == IF kv.creds # "-" /\ TypeDiffers(c.creds, kv.creds) THEN Family(kv.creds) ELSE m
Init == /\ cfg = [timeout |-> 6, retries |-> 10, creds |-> "v2c:a"] /\ mpm = "v2c" /\ stack = <<>> /\ steps = 0 /\ lastObs = <<>>
Tick == steps' = steps + 1
Configure(kv) == /\ cfg' = Apply(cfg, kv) /\ mpm' = NewMpm(cfg, mpm, kv) /\ Tick /\ UNCHANGED <<stack, lastObs>>
ConfigureUnknown == Tick /\ UNCHANGED <<cfg, mpm, stack, lastObs>>          \* dataclasses.replace raises TypeError before anything changes
Enter(kv) == /\ Len(stack) < MaxDepth /\ stack' = Append(stack, [cfg |-> cfg, mpm |-> mpm])
             /\ cfg' = Apply(cfg, kv) /\ mpm' = NewMpm(cfg, mpm, kv) /\ Tick /\ UNCHANGED lastObs
Exit == /\ stack # <<>> /\ LET top == stack[Len(stack)] IN
            /\ cfg' = top.cfg /\ mpm' = IF PinRestoreCfgOnly THEN mpm ELSE top.mpm
        /\ stack' = SubSeq(stack, 1, Len(stack) - 1) /\ Tick /\ UNCHANGED lastObs       \* normal and exceptional exit alike (finally)
Request == /\ lastObs' = [timeout |-> cfg.timeout, retries |-> cfg.retries, ident |-> cfg.creds, version |-> mpm] /\ Tick
           /\ UNCHANGED <<cfg, mpm, stack>>
Next == (\E kv \in Overrides : Configure(kv) \/ Enter(kv)) \/ ConfigureUnknown \/ Exit \/ Request
Spec == Init /\ [][Next]_vars
Bound == steps <= MaxLen
\* C18
VersionFollowsCredentials == mpm = Family(cfg.creds)
RequestObservesCurrentSettings == lastObs # <<>> => lastObs.version = Family(lastObs.ident)
StackDiscipline == \A i \in DOMAIN stack : stack[i].mpm = Family(stack[i].cfg.creds)
====
