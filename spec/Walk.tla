---- MODULE Walk ----
(* Client.multiwalk with both fetchers (GETNEXT and GETBULK) against a conformant
   or a faulty agent: one action per request/response round of the loop in
   src/puresnmp/api/raw.py:multiwalk.  The four Pin* constants re-enable the
   behaviour of the pinned tree that was repaired by "fix:" commits; the normal
   configurations run with all of them FALSE, the self-test configurations
   switch one on and MUST produce a counterexample. *)
EXTENDS WalkImpl, TLC

CONSTANTS Cand,            \* candidate instance OIDs
          RootCand,        \* candidate root OIDs
          MaxRoots, BulkSizes,    \* 0 = GETNEXT fetcher, m >= 1 = GETBULK with max-repetitions m
          Faulty,          \* FALSE: every db \subseteq Cand, conformant agent; TRUE: every F over the universe
          FaultyRange,     \* what a faulty agent may answer with (the instances, possibly also a root itself)
          ErrorModes,      \* subset of {"strict", "warn"}
          PinFirstOrder,   \* first request in the caller's order            (fixed: 2237bfc)
          PinCollapse,     \* bulk fetcher goes through the OID-keyed dict  (fixed: f0f5ba3)
          PinNoProgress,   \* no per-root progress check                    (fixed: 96a183d)
          PinFirstUnguarded, \* first fetch outside the try block            (fixed: 2237bfc)
          ExchangeFaults,  \* how one request/response exchange of the walk may fail besides what the agent's OIDs say:
                           \*   "noSuchName" (the agent's error-status 2: the documented end of a walk), "genErr" (any other error-status),
                           \*   "foreignId" (InvalidResponseId), "usmReject" (a response the security model refuses); {"none"} switches this off
          PartialFirst,    \* TRUE: the agent may also cut a GETBULK response inside its first repetition (RFC 3416 4.2.3)
          PinPartialFirstLost,   \* the columns such a response leaves empty are taken for exhausted subtrees   (fixed: F27)
          PinLenientSwallowsAll, \* errors="warn" catches every SnmpError instead of FaultySNMPImplementation only (seeded C08-m4 / C09-m9)
          Volatile,        \* TRUE: the agent's objects change while it answers (counters, sysUpTime): no two bindings carry the same value,
                           \*       not even two bindings of one instance in one response (RFC 3416 promises no snapshot)
          PinValueOrder    \* deduped_varbinds orders the per-root groups as lists of (OID, value) pairs: values have no order   (fixed: F28)

VARIABLES ag, roots, bulk, errors, pc, nextFetches, contFrom, yielded, nreq, outcome, asked, reask, revealed, hit
vars == <<ag, roots, bulk, errors, pc, nextFetches, contFrom, yielded, nreq, outcome, asked, reask, revealed, hit>>

RootLists == { r \in UNION { [1..k -> RootCand] : k \in 1..MaxRoots } : PairwiseDisjoint(r) }
Univ == Cand \cup RootCand

Init == /\ IF Faulty THEN \E F \in [Univ -> FaultyRange \cup {EOMVTOK}] : ag = FaultyAgent(F)
                     ELSE \E db \in SUBSET Cand : ag = Conformant(db)
        /\ roots \in RootLists /\ bulk \in BulkSizes /\ errors \in ErrorModes
        /\ pc = "fetch" /\ nextFetches = (IF PinFirstOrder THEN roots ELSE SortOids(roots))
        /\ contFrom = <<>> /\ yielded = <<>> /\ nreq = 0 /\ outcome = "running"
        /\ asked = {} /\ reask = FALSE /\ revealed = {} /\ hit = "none"

\* one fetch = the set of possible results (agent's truncation choice for GETBULK)
Fetch(oids) ==
  IF bulk = 0
  THEN LET resp == Row(ag, oids) out == Oids(CutEomv(resp)) IN
       { [ok |-> GetNextOk(oids, out), vbs |-> out, rev |-> { resp[i].oid : i \in { k \in DOMAIN resp : ~resp[k].eomv } }, extra |-> 0] }
  ELSE LET full == Rows(ag, oids, bulk) n == Len(oids) IN
       \* a response that ends inside its first repetition (L < n, no endOfMibView in it) is completed by the bulk fetcher: it asks for the
       \* missing columns until the first repetition is whole (one more request in this model) - unless pinned
       { LET short == L < n /\ \A i \in 1..L : ~full[i].eomv
             L2 == IF short /\ ~PinPartialFirstLost THEN n ELSE L
             got == SubSeq(full, 1, L2) cut == CutEomv(got) IN
         [ok |-> TRUE, vbs |-> Oids(IF PinCollapse THEN Collapse(cut, {}) ELSE cut),
          rev |-> { got[i].oid : i \in { k \in DOMAIN got : ~got[k].eomv } },
          extra |-> IF short /\ ~PinPartialFirstLost THEN 1 ELSE 0]
         : L \in (IF PartialFirst THEN BulkPrefixLensAny(n, full) ELSE BulkPrefixLens(n, full)) }

Prev(root) == IF \E i \in DOMAIN contFrom : contFrom[i][1] = root
              THEN (CHOOSE p \in ToSet(contFrom) : p[1] = root)[2] ELSE root

\* two requested OIDs were answered with the same instance first (the successor of an empty subtree is the first instance of the next one)
SameHead(groups) == \E i, j \in DOMAIN groups : i < j /\ groups[i].grp # <<>> /\ groups[j].grp # <<>> /\ groups[i].grp[1] = groups[j].grp[1]

FaultOutcome == IF errors = "warn" /\ ~(PinFirstUnguarded /\ nreq = 0) THEN "ok" ELSE "faulty"

Round ==
  /\ pc = "fetch"
  /\ \E f \in Fetch(nextFetches) :
       /\ nreq' = nreq + 1 + f.extra
       /\ reask' = (reask \/ \E i \in DOMAIN nextFetches : nextFetches[i] \in asked)
       /\ asked' = asked \cup ToSet(nextFetches)
       /\ revealed' = revealed \cup f.rev
       /\ IF ~f.ok
          THEN /\ outcome' = FaultOutcome /\ pc' = "done"
               /\ UNCHANGED <<nextFetches, contFrom, yielded>>
          ELSE LET groups == Group(f.vbs, nextFetches, roots)
                   unf == Unfinished(groups)
                   stuck == ~PinNoProgress /\ \E i \in DOMAIN unf : ~OidLess(Prev(unf[i][1]), unf[i][2])
               IN IF stuck
                  THEN /\ outcome' = FaultOutcome /\ pc' = "done"
                       /\ UNCHANGED <<nextFetches, contFrom, yielded>>
                  ELSE IF Volatile /\ PinValueOrder /\ SameHead(groups)
                  THEN \* sorted() meets two groups that start with the same instance under different values: TypeError leaves the walk
                       /\ outcome' = "TypeError" /\ pc' = "done"
                       /\ UNCHANGED <<nextFetches, contFrom, yielded>>
                  ELSE /\ yielded' = yielded \o NewYields(groups, roots, ToSet(yielded))
                       /\ contFrom' = unf
                       /\ nextFetches' = [i \in DOMAIN unf |-> unf[i][2]]
                       /\ IF unf = <<>> THEN pc' = "done" /\ outcome' = "ok"
                                        ELSE pc' = "fetch" /\ outcome' = outcome
  /\ UNCHANGED <<ag, roots, bulk, errors, hit>>

\* an exchange of the walk fails: multiwalk's handlers are `except NoSuchOID: break` (end of the walk) and
\* `except FaultySNMPImplementation` (lenient mode ends the walk); everything else leaves the walk as it is
RoundFault ==
  /\ pc = "fetch" /\ hit = "none"
  /\ \E x \in ExchangeFaults \ {"none"} :
       /\ hit' = x /\ nreq' = nreq + 1 /\ pc' = "done"
       /\ outcome' = IF x = "noSuchName" THEN "ok"
                     ELSE IF PinLenientSwallowsAll /\ errors = "warn" /\ ~(PinFirstUnguarded /\ nreq = 0) THEN "ok" ELSE x
  /\ UNCHANGED <<ag, roots, bulk, errors, nextFetches, contFrom, yielded, asked, reask, revealed>>

Done == pc = "done" /\ UNCHANGED vars
Next == Round \/ RoundFault \/ Done
Spec == Init /\ [][Next]_vars /\ WF_vars(Round)

\* ------------------------------------------------------------ properties
Db == IF Faulty THEN {} ELSE ag.set
Strict == StrictSet(Db, roots)
Opt    == OptSet(Db, roots)
\* C01 / C02
NoDup       == \A i, j \in DOMAIN yielded : i # j => yielded[i] # yielded[j]
InsideRoots == \A i \in DOMAIN yielded : \E j \in DOMAIN roots : OidIn(roots[j], yielded[i])
Inside      == Faulty \/ ToSet(yielded) \subseteq Strict \cup Opt
Complete    == Faulty \/ (pc = "done" => (outcome = "ok" /\ Strict \subseteq ToSet(yielded)))
Ascending   == Len(roots) = 1 => IsSortedStrict(yielded)
\* C02: a bulk walk delivers Strict (modulo the optional root instances) exactly like the GETNEXT walk => same set
BulkEqualsGetNext == Faulty \/ (pc = "done" => ToSet(yielded) \ Opt = Strict)
\* C03
Bounded   == nreq <= Cardinality(revealed) + 2
NreqCap   == nreq <= Cardinality(Univ) + 4                \* CONSTRAINT: makes a looping client a finite counterexample
NoReask   == ~reask
OutcomeMode == (outcome = "faulty" => errors = "strict") /\ (~Faulty => outcome # "faulty")
Terminates == <>(pc = "done")
\* C07 / C08 / C09 at the level of the walk: lenient mode forgives OIDs that do not increase - nothing else; only noSuchName ends a walk quietly
ErrorsPropagate == (pc = "done" /\ hit \notin {"none", "noSuchName"}) => outcome = hit
NoSuchNameEndsWalk == (pc = "done" /\ hit = "noSuchName") => outcome = "ok"
====
