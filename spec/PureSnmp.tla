---- MODULE PureSnmp ----
(* Composition and index of the puresnmp specification.

   layer          module(s)                      decides   code it transcribes / judges
   -------------  -----------------------------  --------  ---------------------------------------------------------------
   data           Oid                            all       x690.ObjectIdentifier order (__lt__) and containment (__contains__)
                  Ber                            C05 C06   independent decoder: X.690, RFC 1157 / 3416 / 3412 / 3414 message grammar
                                                 C10 C19
                  Values                         C17       puresnmp/types.py  Counter, Counter64, Gauge, TimeTicks, IpAddress
   environment    Agent, AgentOps                C01-C04   conformant and faulty agent (RFC 3416 4.2.1-4.2.3, RFC 1157 4.1)
                  UsmDefs!AgentVerdict           C10       RFC 3414 3.2 at the agent
                  UsmDefs!CanSend                C09       Dolev-Yao on-path attacker
   client         WalkImpl, Walk                 C01-C03   api/raw.py multiwalk multigetnext _bulkget_varbinds _bulkwalk_fetcher
                                                           deduped_varbinds; util.py group_varbinds get_unfinished_walk_oids
                  Table                          C16       util.py tablify; api/raw.py table bulktable
                  Ops                            C04 C07   api/raw.py get multiget getnext multigetnext set multiset bulkget _send;
                                                 C08       pdu.py PDU.decode_raw; security/v1.py v2c.py; util.py get_request_id
                  UsmDefs!Request / Process      C09-C11   mpm/v3.py V3MPM.encode decode; security/usm.py generate_request_message
                                                           apply_encryption apply_authentication process_incoming_message
                                                           verify_authentication decrypt_message validate_usm_message validate_security_level
                  UsmTime (+ apalache/UsmTimeInd) C12      mpm/v3.py discovery + timing seed; usm.py set_engine_timing update_engine_timing
                  Transport (+ apalache/TransportInd) C13  transport.py send_udp SNMPClientProtocol
                  Concurrent                     C14       the await points of api/raw.py and mpm/v3.py; shared: clock, mpm.disco, local_config
                  Pythonic                       C15       api/pythonic.py PyWrapper; varbind.py PyVarBind
                  Config                         C18       api/raw.py Client.configure reconfigure; credentials.py; plugins/mpm.py create
                  Trap                           C19       api/raw.py register_trap_callback; transport.py listen SNMPTrapReceiverProtocol;
                                                           api/pythonic.py TrapInfo
                  Decoder                        C20       util.py reject_indefinite_length; x690 util.get_value_slice decode_length,
                                                           types.Sequence.decode_raw
   monitors       Trace_*                        all       total monitors over recorded traces of the real code (TraceBase)

   Pin* constants (a repaired behaviour switched back on; each has a self-test configuration that MUST produce a counterexample):
     Walk: PinFirstOrder PinCollapse PinNoProgress PinFirstUnguarded PinPartialFirstLost PinValueOrder   Ops: PinSecondRead PinErrIndex PinGetNextEnd PinErrBeforeId PinV1ErrBeforeCommunity
     UsmDefs: PinAuthFlagTrusted PinConfirmedOnlyGet PinReserialise PinLazyErrorFirst PinStatsInResponse   UsmTime: PinFrozen
     Transport: PinNoFinallyClose   Concurrent: PinSharedRequestId PinSingleSlotMsgId PinSharedSeen   Config: PinIsInstance PinRestoreCfgOnly
     Trap: PinBrokenDecode PinStopOnError   Decoder: PinNoGuard
   One lesson runs through five of the repairs (F21-F25): the PDU is decoded lazily and raises the exception of its error-status at first
   touch, and a walk reads NoSuchOID as "subtree exhausted".  Ops!WalkEndSound and UsmDefs!Caller state the consequence at the model
   level: that exception may only ever come from the authenticated, matching response to the request actually sent.

   The constant-free layers are instantiated below so that the twenty properties can be named in one place; the
   state machines are checked through their own MC_* / generated configurations (harness/props/cNN.py). *)
EXTENDS Naturals, Sequences
O == INSTANCE Oid
B == INSTANCE Ber
V == INSTANCE Values
P == INSTANCE Pythonic

\* a few cross-layer facts TLC evaluates when this module is checked (ASSUME = evaluated once)
ASSUME O!OidLess(<<1, 3, 6>>, <<1, 3, 6, 1>>) /\ ~O!OidLess(<<1, 10>>, <<1, 2>>) /\ O!OidIn(<<1, 3>>, <<1, 3>>)
ASSUME B!Canon(<<0, 0, 128>>) = <<0, 128>> /\ B!Canon(<<255, 255, 127>>) = <<255, 127>> /\ B!UCanon(<<255, 255, 255, 255>>) = <<0, 255, 255, 255, 255>>
ASSUME B!DecOid(<<43, 6, 1, 129, 0>>) = << <<43>>, <<6>>, <<1>>, <<1, 0>> >>
\* 30 0b 02 01 01 04 06 "public"  is a well-formed prefix but not a message; 30 80 .. is refused (indefinite length)
ASSUME ~B!DecodeCommunity(<<48, 128, 2, 1, 1>>).ok
ASSUME V!CounterOf(FALSE, <<1, 0, 0, 0, 42>>, 4) = <<42>> /\ V!CounterOf(TRUE, <<5>>, 4) = <<0>>
ASSUME V!TicksToDelta(2, 12345) = <<2, 123, 450000>> /\ V!DeltaToTicks(2, 123, 459999) = <<2, 12345>>
ASSUME P!NodeOk([kind |-> "key", type |-> "str", path |-> "$"]) /\ ~P!NodeOk([kind |-> "key", type |-> "x690.types.ObjectIdentifier", path |-> "$"])
VARIABLE x
Init == x = 0
Next == UNCHANGED x
Spec == Init /\ [][Next]_x
====
