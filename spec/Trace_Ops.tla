---- MODULE Trace_Ops ----
(* Trace specification for single request/response operations: C04 (results are exactly the
   agent's answers), C07 (only the response to the request actually sent is returned), C08
   (error-status surfaces as the documented exception).  Events: call, clock, disco, req, resp, ret.
   The clauses judge only what crossed the seams: the request as decoded by the reference agent,
   the reply it sent (re-checked here against AgentOps!Answer when unperturbed), what the caller got. *)
EXTENDS AgentOps, TraceBase

VARIABLES tid, l, st, verdict
vars == <<tid, l, st, verdict>>
Ev == Traces[tid].events
Sc == Traces[tid].scenario

Norm(v) == IF v[1] \in {"NoSuchObject", "NoSuchInstance"} THEN NOSUCH
           ELSE IF v[1] = "EndOfMibView" THEN EOMVV ELSE IF v[1] = "Null" THEN NULLV ELSE v
NormS(s) == [i \in DOMAIN s |-> Norm(s[i])]
NormB(s) == [i \in DOMAIN s |-> <<s[i][1], Norm(s[i][2])>>]
Db  == { Sc.db[i][1] : i \in DOMAIN Sc.db }
DbV == [o \in Db |-> Norm(Sc.db[CHOOSE i \in DOMAIN Sc.db : Sc.db[i][1] = o][2])]
Ver == IF Sc.proto \in {"v1", "v2c"} THEN Sc.proto ELSE "v3"
Perturb == IF Has(Sc, "perturb") THEN Sc.perturb ELSE "none"
Disco == IF Has(Sc, "disco") THEN Sc.disco ELSE "echo"
KindOf(op) == CASE op \in {"get", "multiget"} -> "get" [] op \in {"getnext", "multigetnext"} -> "getnext"
                [] op \in {"set", "multiset"} -> "set" [] OTHER -> "bulk"
Vals(s) == [i \in DOMAIN s |-> s[i][2]]
NoEomv(s) == SelectSeq(s, LAMBDA b : b[2] # EOMVV)
Min2(a, b) == IF a < b THEN a ELSE b

None == [none |-> TRUE]
St0 == [call |-> None, req |-> None, resp |-> None, nreq |-> 0]

OnReq(s, e) ==
  LET c == s.call op == c.op IN
  [st |-> [s EXCEPT !.req = e, !.nreq = @ + 1],
   cl |-> << <<"second_request", s.nreq = 0 \/ Has(Sc, "engine_change")>>,
             <<"request_mismatch_oids", e.oids = c.oids>>,
             <<"request_mismatch_pdu_type", e.kind = KindOf(op)>>,
             <<"request_mismatch_version", e.ver = Ver>>,
             <<"request_mismatch_values",
               IF KindOf(op) = "set" THEN NormS(e.vals) = NormS(c.vals) ELSE \A i \in DOMAIN e.vals : Norm(e.vals[i]) = NULLV>>,
             <<"request_mismatch_fields",
               IF op = "bulkget" THEN e.nonrep = c.nr /\ e.maxrep = c.mr ELSE e.es = 0 /\ e.ei = 0>> >>]

OnResp(s, e) ==
  LET c == s.call
      a == Answer(Ver, c.op, c.oids, c.nr, c.mr, Db, DbV, NormS(c.vals)) IN
  [st |-> [s EXCEPT !.resp = e],
   cl |-> << <<"MACHINERY_agent_answer_conformant",
               Perturb # "none" \/ (e.es = a.es /\ e.ei = a.ei /\ NormB(e.vbs) = a.vbs)>> >>]

DataClauses(c, vb, e) ==
  LET op == c.op n == Len(c.oids)
      isRes == e.kind = "result"
      refused == e.kind = "exc" /\ e.snmp
  IN CASE op = "multiget" ->
            IF Len(vb) # n THEN << <<"count_mismatch_accepted", refused>> >>
            ELSE << <<"unexpected_exception", isRes>>, <<"get_value_mismatch", isRes => NormS(e.data) = Vals(vb)>> >>
       [] op = "get" ->
            IF Len(vb) # 1 THEN << <<"count_mismatch_accepted", refused>> >>
            ELSE IF vb[1][2] = NOSUCH THEN << <<"placeholder_returned", ~isRes>>, <<"missing_no_such_oid", e.cls = "NoSuchOID">> >>
            ELSE << <<"unexpected_exception", isRes>>, <<"get_value_mismatch", isRes => (Norm(e.data) = vb[1][2] /\ vb[1][1] = c.oids[1])>> >>
       [] op = "getnext" ->
            IF Len(vb) # 1 THEN << <<"count_mismatch_accepted", refused>> >>
            ELSE IF vb[1][2] = EOMVV THEN << <<"placeholder_returned", ~isRes>>, <<"non_snmp_exception", e.snmp>> >>
            ELSE IF vb[1][2] = NOSUCH THEN << <<"placeholder_returned", ~isRes>>, <<"missing_no_such_oid", e.cls = "NoSuchOID">> >>
            ELSE IF ~OidLess(c.oids[1], vb[1][1]) THEN << <<"non_successor_accepted", e.cls = "FaultySNMPImplementation">> >>
            ELSE << <<"unexpected_exception", isRes>>,
                    <<"getnext_not_successor", isRes => (e.data[1] = vb[1][1] /\ Norm(e.data[2]) = vb[1][2])>> >>
       [] op = "multigetnext" ->
            IF Len(vb) # n THEN << <<"count_mismatch_accepted", refused>> >>
            ELSE IF \E i \in DOMAIN CutE(vb) : ~OidLess(c.oids[i], vb[i][1]) THEN << <<"non_successor_accepted", e.cls = "FaultySNMPImplementation">> >>
            ELSE << <<"unexpected_exception", isRes>>,
                    <<"getnext_not_successor", isRes => NormB(e.data) \in {CutE(vb), NoEomv(vb)}>> >>
       [] op = "set" ->
            IF Cardinality({ vb[i][1] : i \in DOMAIN vb }) # 1 THEN << <<"count_mismatch_accepted", refused>> >>
            ELSE << <<"unexpected_exception", isRes \/ vb[1][1] # c.oids[1]>>,
                    <<"set_mismatch", isRes => (vb[1][1] = c.oids[1] /\ Norm(e.data) = vb[Len(vb)][2])>> >>
       [] op = "multiset" ->
            IF Cardinality({ vb[i][1] : i \in DOMAIN vb }) # n THEN << <<"count_mismatch_accepted", refused>> >>
            ELSE << <<"unexpected_exception", isRes>>, <<"set_mismatch", isRes => FaithfulMapping(NormB(e.data), vb)>> >>
       [] op = "bulkget" ->
            LET nn == Min2(c.nr, n) limit == nn + c.mr * (n - nn)
                sc == SubSeq(vb, 1, Min2(c.nr, Len(vb))) rp == SubSeq(vb, c.nr + 1, Len(vb)) IN
            IF Len(vb) > limit THEN << <<"bulk_oversize_accepted", refused>> >>
            ELSE << <<"unexpected_exception", isRes>>,
                    <<"bulk_scalar_mismatch", isRes => FaithfulMapping(NormB(e.data[1]), sc)>>,
                    <<"bulk_listing_mismatch", isRes => (FaithfulMapping(NormB(e.data[2]), CutE(rp)) \/ FaithfulMapping(NormB(e.data[2]), NoEomv(rp)))>> >>

OnRet(s, e) ==
  LET c == s.call IN
  [st |-> s,
   cl |->
     IF s.resp = None /\ Has(Sc, "engine_change")
     THEN \* the agent answered with an unknownEngineID Report only: there is no response to hand out
          << <<"report_returned_as_result", e.kind = "exc">>, <<"non_snmp_exception", e.snmp>> >>
     ELSE IF s.resp = None /\ Ver # "v3"
     THEN \* no request of the operation ever reached the agent
          << <<"request_never_sent", FALSE>> >>
     ELSE IF s.resp = None
     THEN \* the operation never reached the agent: the discovery exchange was refused
          IF Disco = "echo" THEN << <<"disco_matching_msgid_rejected", FALSE>> >>
          ELSE << <<"disco_wrong_msgid_accepted", e.kind = "exc" /\ e.cls = "InvalidResponseId">> >>
     ELSE LET r == s.resp vb == NormB(r.vbs)
              idok == r.reqid = s.req.reqid IN
          IF ~(r.commok /\ r.verok)
          THEN << <<"accepted_wrong_community_or_version", e.kind = "exc" /\ e.snmp>>,
                  \* refused as a foreign message: its error-status is not this request's error
                  <<"foreign_message_error_reported", e.status = 0>> >>
          ELSE IF ~idok          \* whatever else it carries (data or an error-status): it is not the answer to the request sent
          THEN << <<"accepted_wrong_id", e.kind = "exc">>,
                  <<"wrong_id_other_exception", e.cls = "InvalidResponseId">> >>
          ELSE IF r.es # 0
          THEN << <<"error_returned_as_data", e.kind = "exc">>,
                  <<"non_snmp_exception", e.snmp>>,
                  <<"wrong_exception_class", e.cls = ErrClass(r.es)>>,
                  <<"wrong_status", e.status = r.es>>,
                  <<"wrong_offending_oid", r.ei \in DOMAIN vb => e.oid = vb[r.ei][1]>>,
                  <<"offending_oid_not_selected", r.ei \notin DOMAIN vb => e.oid = <<>> >> >>
          ELSE << <<"rejected_matching_id", e.cls # "InvalidResponseId">>,
                  <<"non_snmp_exception", e.kind = "result" \/ e.snmp>> >> \o DataClauses(c, vb, e)]

On(s, e) ==
  CASE e.e = "call"  -> [st |-> [s EXCEPT !.call = e], cl |-> <<>>]
    [] e.e = "clock" -> [st |-> s, cl |-> <<>>]
    [] e.e = "disco" -> [st |-> s, cl |-> <<>>]
    [] e.e = "req"   -> OnReq(s, e)
    [] e.e = "resp"  -> OnResp(s, e)
    [] e.e = "ret"   -> OnRet(s, e)
    [] OTHER -> [st |-> s, cl |-> << <<"MACHINERY_unknown_event", FALSE>> >>]

Init == tid \in 1..Len(Traces) /\ l = 1 /\ st = St0 /\ verdict = <<"ok", 0>>
Step == /\ l <= Len(Ev)
        /\ LET r == On(st, Ev[l]) v == FirstFalse(r.cl) IN
             /\ st' = r.st
             /\ verdict' = IF verdict[1] = "ok" /\ v # "ok" THEN <<v, l>> ELSE verdict
        /\ l' = l + 1 /\ UNCHANGED tid
Fin  == /\ l = Len(Ev) + 1
        /\ PrintT(<<"VERDICT", tid, verdict[1], verdict[2]>>)
        /\ l' = l + 1 /\ UNCHANGED <<tid, st, verdict>>
Next == Step \/ Fin
Spec == Init /\ [][Next]_vars
====
