---- MODULE Trace_UsmTime ----
(* (timeliness is only defined for authenticated messages: RFC 3414 3.2 step 7 applies when the securityLevel asks for authentication) *)
(* Trace specification for C12: a recorded history of operations, agent clock advances and agent
   reboots on one client.  Events: op (with every datagram the agent saw), advance, reboot. *)
EXTENDS Naturals, Integers, Sequences, TraceBase
VARIABLES tid, l, st, verdict
vars == <<tid, l, st, verdict>>
Ev == Traces[tid].events
Sc == Traces[tid].scenario
Abs(x) == IF x < 0 THEN -x ELSE x
St0 == [nops |-> 0, rebootPending |-> FALSE, failsSinceReboot |-> 0, probes |-> 0, drift |-> 0]
DiscoKind == IF Has(Sc, "disco") THEN Sc.disco ELSE "ok"

InWindow(r) == ~r.auth \/ (r.boots = r.agent_boots /\ Abs(r.time - r.agent_time) <= 150)
OnOp(s, e) ==
  LET first == s.nops = 0
      failed == e.ret # "ok"
      reqs == e.reqs IN
  [st |-> [s EXCEPT !.nops = @ + 1, !.probes = @ + e.probes,
                    \* spec -> code replay: the outcome UsmTime.tla predicted for this request of a TLC-generated behaviour
                    !.drift = IF Has(Sc, "predicted") /\ s.nops + 1 <= Len(Sc.predicted) /\ (Sc.predicted[s.nops + 1] = "ok") # (e.ret = "ok") THEN @ + 1 ELSE @,
                    !.rebootPending = IF reqs # <<>> THEN FALSE ELSE @,
                    !.failsSinceReboot = IF failed THEN @ + 1 ELSE @],
   cl |-> IF DiscoKind # "ok" /\ first
          THEN << <<"disco_bad_reply_accepted", failed /\ reqs = <<>> >>,
                  \* ... refused with an exception - not turned into a (wrong, e.g. empty) result
                  <<"disco_bad_reply_became_a_result", e.ret = "exc">> >>
          ELSE \* (after a refused discovery reply the next operation discovers again and is judged like any other)
          << <<"wrong_result", e.ret # "wrong">>,
             <<"no_discovery_before_first_request", ~first \/ (e.first_wire = "probe" /\ e.probes >= 1)>>,
             <<"engine_id_not_used", \A i \in DOMAIN reqs : reqs[i].engine_ok>>,
             <<"context_engine_default", \A i \in DOMAIN reqs : reqs[i].ctx_ok>>,
             <<"outside_time_window", s.rebootPending \/ \A i \in DOMAIN reqs : InWindow(reqs[i])>>,
             <<"request_failed_after_advance", s.rebootPending \/ ~failed>>,
             <<"no_recovery_after_reboot", ~(failed /\ s.rebootPending /\ s.failsSinceReboot >= 1)>> >>]
On(s, e) ==
  CASE e.e = "op" -> OnOp(s, e)
    [] e.e = "advance" -> [st |-> s, cl |-> <<>>]
    [] e.e = "newclient" -> [st |-> [s EXCEPT !.nops = 0, !.rebootPending = FALSE, !.failsSinceReboot = 0], cl |-> <<>>]
    \* the client left SNMPv3 and came back: it may rediscover or keep what it knew - only timeliness is demanded afterwards
    [] e.e = "relayer" -> [st |-> s, cl |-> <<>>]
    [] e.e = "reboot" -> [st |-> [s EXCEPT !.rebootPending = s.nops > 0, !.failsSinceReboot = 0], cl |-> <<>>]
    [] OTHER -> [st |-> s, cl |-> << <<"MACHINERY_unknown_event", FALSE>> >>]
Init == tid \in 1..Len(Traces) /\ l = 1 /\ st = St0 /\ verdict = <<"ok", 0>>
Step == /\ l <= Len(Ev)
        /\ LET r == On(st, Ev[l]) v == FirstFalse(r.cl) IN
             /\ st' = r.st /\ verdict' = IF verdict[1] = "ok" /\ v # "ok" THEN <<v, l>> ELSE verdict
        /\ l' = l + 1 /\ UNCHANGED tid
Fin  == /\ l = Len(Ev) + 1 /\ PrintT(<<"VERDICT", tid, verdict[1], verdict[2], st.drift, st.probes>>) /\ l' = l + 1 /\ UNCHANGED <<tid, st, verdict>>
Next == Step \/ Fin
Spec == Init /\ [][Next]_vars
====
