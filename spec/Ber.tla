---- MODULE Ber ----
(* An independent decoder for BER-encoded SNMP messages, written from X.690 (definite
   length forms only, as RFC 3417 section 8 requires), RFC 1157 / RFC 3416 (messages and PDUs,
   incl. GetBulk's reuse of the error fields), RFC 3412 section 6 (SNMPv3 message, header data,
   scoped PDU) and RFC 3414 section 2.4 (UsmSecurityParameters inside the OCTET STRING).
   Datagrams are Seq(0..255).  No protocol integer ever becomes a TLC integer: integers are
   kept as canonical two's-complement octet strings, OID sub-identifiers as base-128 digit
   strings (so 2^32-1 and beyond are representable).  This module is "the independent decoder"
   of properties C05, C06, C10, C19 and the TLV grammar of C20. *)
EXTENDS Naturals, Sequences, FiniteSets

BAD == [ok |-> FALSE, tag |-> 0, hs |-> 0, cs |-> 0, ce |-> 0, nlen |-> 0]
RECURSIVE BE(_, _, _, _)
BE(b, i, n, acc) == IF n = 0 THEN acc ELSE BE(b, i + 1, n - 1, acc * 256 + b[i])

\* TLV header at index i of the region [i, e)   (e exclusive).  nlen = number of length octets (1 = short form)
Hdr(b, i, e) ==
  IF i + 2 > e THEN BAD
  ELSE LET t == b[i] l0 == b[i + 1] IN
    IF t % 32 = 31 THEN BAD                                          \* multi-octet tags do not occur in SNMP
    ELSE IF l0 < 128 THEN [ok |-> i + 2 + l0 <= e, tag |-> t, hs |-> i, cs |-> i + 2, ce |-> i + 2 + l0, nlen |-> 1]
    ELSE LET n == l0 - 128 IN
      IF n = 0 \/ n > 4 \/ i + 2 + n > e THEN BAD                    \* indefinite (0x80), reserved (0xFF), overlong, truncated
      ELSE IF n = 4 /\ b[i + 2] >= 128 THEN BAD
      ELSE LET v == BE(b, i + 2, n, 0) IN
           [ok |-> v <= e /\ i + 2 + n + v <= e, tag |-> t, hs |-> i, cs |-> i + 2 + n, ce |-> i + 2 + n + v, nlen |-> n + 1]
RECURSIVE Kids(_, _, _)
Kids(b, s, e) == IF s >= e THEN <<>>
                 ELSE LET h == Hdr(b, s, e) IN IF ~h.ok THEN <<BAD>> ELSE <<h>> \o Kids(b, h.ce, e)
AllOk(k) == \A j \in DOMAIN k : k[j].ok
Shape(k, tags) == Len(k) = Len(tags) /\ \A j \in DOMAIN k : k[j].ok /\ (tags[j] = 0 \/ k[j].tag = tags[j])
By(b, h) == SubSeq(b, h.cs, h.ce - 1)

\* ---- value forms
RECURSIVE Canon(_)       \* canonical two's complement: strip redundant leading 0x00 / 0xFF octets
Canon(c) == IF Len(c) >= 2 /\ ((c[1] = 0 /\ c[2] < 128) \/ (c[1] = 255 /\ c[2] >= 128)) THEN Canon(Tail(c)) ELSE c
IntOk(c) == c # <<>> /\ Canon(c) = c                                  \* X.690 8.3.2: minimal contents octets
RECURSIVE StripZ(_)
StripZ(d) == IF Len(d) >= 2 /\ d[1] = 0 THEN StripZ(Tail(d)) ELSE d
\* unsigned application types: the non-negative value as canonical two's complement
UCanon(c) == LET z == StripZ(c) IN IF z[1] >= 128 THEN <<0>> \o z ELSE z
RECURSIVE SubIds(_, _, _)
SubIds(c, i, acc) == IF i > Len(c) THEN (IF acc = <<>> THEN <<>> ELSE << <<"unterminated">> >>)
                     ELSE IF c[i] >= 128 THEN SubIds(c, i + 1, Append(acc, c[i] - 128))
                     ELSE <<StripZ(Append(acc, c[i]))>> \o SubIds(c, i + 1, <<>>)
\* OBJECT IDENTIFIER as the sequence of its sub-identifiers (first one = 40 * arc1 + arc2), each a base-128 digit string
DecOid(c) == SubIds(c, 1, <<>>)
OidOk(c) == c # <<>> /\ c[Len(c)] < 128

TagInt == 2  TagStr == 4  TagNull == 5  TagOid == 6  TagSeq == 48
TagIp == 64  TagCounter == 65  TagGauge == 66  TagTicks == 67  TagOpaque == 68  TagC64 == 70
TagNoObj == 128  TagNoInst == 129  TagEomv == 130
IntLike == {TagInt}
UIntLike == {TagCounter, TagGauge, TagTicks, TagC64}
\* abstract value of a binding: [tag, canonical content]
ValueOf(b, h) == LET c == By(b, h) IN
  IF h.tag \in IntLike THEN [tag |-> h.tag, v |-> IF c = <<>> THEN <<"empty">> ELSE Canon(c), wf |-> IntOk(c)]
  ELSE IF h.tag \in UIntLike THEN [tag |-> h.tag, v |-> IF c = <<>> THEN <<"empty">> ELSE UCanon(c), wf |-> IntOk(c) /\ c[1] < 128]
  ELSE IF h.tag = TagOid THEN [tag |-> h.tag, v |-> DecOid(c), wf |-> OidOk(c)]
  ELSE IF h.tag \in {TagNull, TagNoObj, TagNoInst, TagEomv} THEN [tag |-> h.tag, v |-> <<>>, wf |-> c = <<>>]
  ELSE IF h.tag = TagIp THEN [tag |-> h.tag, v |-> c, wf |-> Len(c) = 4]
  ELSE [tag |-> h.tag, v |-> c, wf |-> TRUE]

\* ---- PDU  (RFC 3416 section 3; RFC 1157 4.1): [request-id, error-status | non-repeaters, error-index | max-repetitions, bindings]
Fail(why) == [ok |-> FALSE, why |-> why]
DecodePdu(b, h) ==
  LET pk == Kids(b, h.cs, h.ce) IN
  IF ~Shape(pk, <<TagInt, TagInt, TagInt, TagSeq>>) THEN Fail("pdu") ELSE
  LET vbs == Kids(b, pk[4].cs, pk[4].ce) IN
  IF ~AllOk(vbs) \/ \E j \in DOMAIN vbs : vbs[j].tag # TagSeq \/ ~Shape(Kids(b, vbs[j].cs, vbs[j].ce), <<TagOid, 0>>) THEN Fail("varbind") ELSE
  LET kid(j) == Kids(b, vbs[j].cs, vbs[j].ce) IN
  IF \E j \in DOMAIN pk : j <= 3 /\ ~IntOk(By(b, pk[j])) THEN Fail("pdu-integer") ELSE
  IF \E j \in DOMAIN vbs : ~OidOk(By(b, kid(j)[1])) THEN Fail("oid") ELSE
  [ok |-> TRUE, why |-> "", ptype |-> h.tag,
   reqid |-> Canon(By(b, pk[1])), f1 |-> Canon(By(b, pk[2])), f2 |-> Canon(By(b, pk[3])),
   oids |-> [j \in DOMAIN vbs |-> DecOid(By(b, kid(j)[1]))],
   vals |-> [j \in DOMAIN vbs |-> ValueOf(b, kid(j)[2])]]

\* ---- community-based message (RFC 1157 section 4, RFC 1901 section 3)
DecodeCommunity(b) ==
  LET top == Hdr(b, 1, Len(b) + 1) IN
  IF ~top.ok \/ top.tag # TagSeq THEN Fail("top") ELSE
  IF top.ce # Len(b) + 1 THEN Fail("trailing-octets") ELSE
  LET m == Kids(b, top.cs, top.ce) IN
  IF ~Shape(m, <<TagInt, TagStr, 0>>) \/ ~IntOk(By(b, m[1])) THEN Fail("message") ELSE
  LET p == DecodePdu(b, m[3]) IN
  IF ~p.ok THEN p ELSE
  [ok |-> TRUE, why |-> "", form |-> "community", version |-> Canon(By(b, m[1])), community |-> By(b, m[2]), pdu |-> p]

\* ---- SNMPv3 message (RFC 3412 section 6) with USM parameters (RFC 3414 section 2.4)
\* spdu: the plaintext scoped PDU octets when the payload is encrypted (supplied by the harness), else <<>>
DecodeScoped(b, h) ==
  LET sc == Kids(b, h.cs, h.ce) IN
  IF ~Shape(sc, <<TagStr, TagStr, 0>>) THEN Fail("scoped") ELSE
  LET p == DecodePdu(b, sc[3]) IN
  IF ~p.ok THEN p ELSE [ok |-> TRUE, why |-> "", ctxengine |-> By(b, sc[1]), ctxname |-> By(b, sc[2]), pdu |-> p]
DecodeV3(b, spdu) ==
  LET top == Hdr(b, 1, Len(b) + 1) IN
  IF ~top.ok \/ top.tag # TagSeq THEN Fail("top") ELSE
  IF top.ce # Len(b) + 1 THEN Fail("trailing-octets") ELSE
  LET m == Kids(b, top.cs, top.ce) IN
  IF ~Shape(m, <<TagInt, TagSeq, TagStr, 0>>) THEN Fail("message") ELSE
  LET hd == Kids(b, m[2].cs, m[2].ce) IN
  IF ~Shape(hd, <<TagInt, TagInt, TagStr, TagInt>>) \/ hd[3].ce - hd[3].cs # 1 THEN Fail("header") ELSE
  LET sp == Hdr(b, m[3].cs, m[3].ce) IN
  IF ~sp.ok \/ sp.tag # TagSeq \/ sp.ce # m[3].ce THEN Fail("secparams-wrapper") ELSE
  LET us == Kids(b, sp.cs, sp.ce) IN
  IF ~Shape(us, <<TagStr, TagInt, TagInt, TagStr, TagStr, TagStr>>) THEN Fail("usm") ELSE
  LET flags == b[hd[3].cs]
      encrypted == (flags \div 2) % 2 = 1 IN
  IF encrypted /\ m[4].tag # TagStr THEN Fail("encrypted-payload-not-octet-string") ELSE
  IF ~encrypted /\ m[4].tag # TagSeq THEN Fail("scoped-pdu-tag") ELSE
  LET sc == IF encrypted
            THEN (LET t == Hdr(spdu, 1, Len(spdu) + 1) IN IF ~t.ok \/ t.tag # TagSeq THEN Fail("decrypted-scoped") ELSE DecodeScoped(spdu, t))
            ELSE DecodeScoped(b, m[4]) IN
  IF ~sc.ok THEN sc ELSE
  [ok |-> TRUE, why |-> "", form |-> "v3", version |-> Canon(By(b, m[1])),
   msgid |-> Canon(By(b, hd[1])), maxsize |-> Canon(By(b, hd[2])), flags |-> flags, secmodel |-> Canon(By(b, hd[4])),
   engine |-> By(b, us[1]), boots |-> Canon(By(b, us[2])), time |-> Canon(By(b, us[3])), user |-> By(b, us[4]),
   auth |-> By(b, us[5]), authStart |-> us[5].cs, priv |-> By(b, us[6]),
   cipher |-> IF encrypted THEN By(b, m[4]) ELSE <<>>,
   ctxengine |-> sc.ctxengine, ctxname |-> sc.ctxname, pdu |-> sc.pdu]

\* version sniffing (what a trap receiver has to do): first member of the outer sequence
Version(b) == LET top == Hdr(b, 1, Len(b) + 1) IN
              IF ~top.ok \/ top.tag # TagSeq THEN <<>>
              ELSE LET m == Kids(b, top.cs, top.ce) IN IF m = <<>> \/ ~m[1].ok \/ m[1].tag # TagInt THEN <<>> ELSE Canon(By(b, m[1]))
Decode(b, spdu) == IF Version(b) = <<3>> THEN DecodeV3(b, spdu) ELSE DecodeCommunity(b)
====
