---- MODULE Trace_Config ----
(* Trace specification for C18: a properly nested history of configure / reconfigure-enter /
   reconfigure-exit (normal or exceptional) / request, executed with real `with client.reconfigure(...)`
   blocks.  The monitor runs the property-level semantics (a stack of configurations) alongside and
   compares what each request let the sender and the message layer see. *)
EXTENDS Naturals, Sequences, TraceBase
VARIABLES tid, l, st, verdict
vars == <<tid, l, st, verdict>>
Ev == Traces[tid].events
Family(c) == CASE c \in {"v2c:a", "v2c:b"} -> "v2c" [] c = "v1:a" -> "v1" [] OTHER -> "v3"
\* `known`: a request of the current (SNMPv3) configuration has completed, i.e. the engine has been discovered.  Leaving a block puts the
\* client back into the state it had on entering - a client that needed no discovery then needs none now.
Apply(c, kv) == [timeout |-> IF Has(kv, "timeout") THEN kv.timeout ELSE c.timeout,
                 retries |-> IF Has(kv, "retries") THEN kv.retries ELSE c.retries,
                 creds |-> IF Has(kv, "creds") THEN kv.creds ELSE c.creds,
                 ctx |-> IF Has(kv, "ctx") THEN kv.ctx ELSE c.ctx]       \* SNMPv3 context "engine/name" ("" engine = the discovered engine id)
St0 == [cfg |-> [timeout |-> 6, retries |-> 10, creds |-> "v2c:a", ctx |-> "/"], stack |-> <<>>, lastOp |-> "init", known |-> FALSE, kstack |-> <<>>]
Blame(s) == CASE s.lastOp \in {"exit"} -> "not_restored"
              [] s.lastOp = "enter" -> "override_not_applied"
              [] s.lastOp \in {"configure_unknown", "enter_unknown"} -> "unknown_setting_changed_state"
              [] s.lastOp = "configure" -> "permanent_setting_lost"
              [] OTHER -> "settings_differ"
On(s, e) ==
  CASE e.e = "configure" -> [st |-> [s EXCEPT !.cfg = Apply(@, e.kv), !.lastOp = "configure", !.known = IF Has(e.kv, "creds") THEN FALSE ELSE @], cl |-> << <<"configure_failed", e.raised = "">> >>]
    [] e.e = "configure_unknown" -> [st |-> [s EXCEPT !.lastOp = "configure_unknown"], cl |-> << <<"unknown_setting_accepted", e.raised = "TypeError">> >>]
    [] e.e = "enter" -> [st |-> [s EXCEPT !.stack = Append(@, s.cfg), !.cfg = Apply(@, e.kv), !.lastOp = "enter", !.kstack = Append(@, s.known),
                                         !.known = IF Has(e.kv, "creds") THEN FALSE ELSE @], cl |-> << <<"reconfigure_failed", e.raised = "">> >>]
    [] e.e = "enter_unknown" -> [st |-> [s EXCEPT !.lastOp = "enter_unknown"], cl |-> << <<"unknown_setting_accepted", e.raised = "TypeError">> >>]
    [] e.e = "exit" -> [st |-> [s EXCEPT !.cfg = s.stack[Len(s.stack)], !.stack = SubSeq(@, 1, Len(@) - 1), !.lastOp = "exit",
                                        !.known = s.kstack[Len(s.kstack)], !.kstack = SubSeq(@, 1, Len(@) - 1)],
                        cl |-> << <<"MACHINERY_exit_without_enter", s.stack # <<>>>>, <<"exception_swallowed_or_changed", e.how = e.observed>> >>]
    [] e.e = "request" ->
         [st |-> [s EXCEPT !.lastOp = "request", !.known = (Family(s.cfg.creds) = "v3" /\ e.ok)],
          cl |-> << <<"request_failed", e.ok>>,
                    <<Blame(s) \o ":discovery_repeated", ~(Family(s.cfg.creds) = "v3" /\ s.known) \/ e.probes = 0>>,
                    <<Blame(s) \o ":timeout", e.timeout = s.cfg.timeout>>,
                    <<Blame(s) \o ":retries", e.retries = s.cfg.retries>>,
                    <<Blame(s) \o ":credentials", e.ident = s.cfg.creds>>,
                    <<Blame(s) \o ":context", Family(s.cfg.creds) # "v3" \/ ~Has(e, "ctx") \/ e.ctx = s.cfg.ctx>>,
                    \* every datagram of the request - the v3 discovery probe included - reaches the transport with the settings in force
                    <<Blame(s) \o ":transport_of_discovery", \A i \in DOMAIN e.wire : e.wire[i] = <<s.cfg.timeout, s.cfg.retries>> >>,
                    <<"version_not_switched", e.version = Family(s.cfg.creds)>> >>]
    [] OTHER -> [st |-> s, cl |-> << <<"MACHINERY_unknown_event", FALSE>> >>]
Init == tid \in 1..Len(Traces) /\ l = 1 /\ st = St0 /\ verdict = <<"ok", 0>>
Step == /\ l <= Len(Ev)
        /\ LET r == On(st, Ev[l]) v == FirstFalse(r.cl) IN
             /\ st' = r.st /\ verdict' = IF verdict[1] = "ok" /\ v # "ok" THEN <<v, l>> ELSE verdict
        /\ l' = l + 1 /\ UNCHANGED tid
Fin  == /\ l = Len(Ev) + 1 /\ PrintT(<<"VERDICT", tid, verdict[1], verdict[2], Len(st.stack)>>) /\ l' = l + 1 /\ UNCHANGED <<tid, st, verdict>>
Next == Step \/ Fin
Spec == Init /\ [][Next]_vars
====
