---- MODULE Values ----
(* Reference semantics of the SNMP application types (RFC 2578 section 7, RFC 3416 section 3) on the
   canonical forms of Ber.tla - no protocol value is ever a TLC integer except tick counts split
   into <<days, rest>> (both < 2^31):
     Counter32 / Counter64 from any integer: negative -> 0, otherwise modulo 2^32 / 2^64
     unsigned types decode as non-negative
     TimeTicks <-> timedelta at one hundredth of a second
     IpAddress <-> four octets                                                          (C17) *)
EXTENDS Ber
TicksPerDay == 8640000
\* the low n octets of a big-endian magnitude, as canonical non-negative two's complement
LowOctets(mag, n) == LET m == IF mag = <<>> THEN <<0>> ELSE mag
                         cut == IF Len(m) <= n THEN m ELSE SubSeq(m, Len(m) - n + 1, Len(m)) IN UCanon(cut)
CounterOf(neg, mag, n) == IF neg THEN <<0>> ELSE LowOctets(mag, n)
\* TimeTicks n = d * 8640000 + r  ->  timedelta(days, seconds, microseconds)
TicksToDelta(d, r) == <<d, r \div 100, (r % 100) * 10000>>
\* timedelta -> ticks (floor to a hundredth of a second)
DeltaToTicks(days, secs, micros) == <<days, secs * 100 + micros \div 10000>>
====
