---- MODULE Trace_Values ----
(* Trace specification for C17: each event is one observation of the real type classes
   (constructor, decoder, conversions, encode/decode round trip); TLC evaluates the reference
   definitions of Values.tla / Ber.tla on the same input and compares. *)
EXTENDS Values, TraceBase
VARIABLES tid, l, verdict
vars == <<tid, l, verdict>>
Ev == Traces[tid].events

TagOfKind(k) == CASE k = "Counter" -> TagCounter [] k = "Gauge" -> TagGauge [] k = "TimeTicks" -> TagTicks [] k = "Counter64" -> TagC64
                  [] k = "Integer" -> TagInt [] k = "IpAddress" -> TagIp [] OTHER -> 0
Decoded1(bytes) == LET h == Hdr(bytes, 1, Len(bytes) + 1) IN IF ~h.ok \/ h.ce # Len(bytes) + 1 THEN [tag |-> 0, v |-> <<"malformed">>, wf |-> FALSE] ELSE ValueOf(bytes, h)

On(e) ==
  CASE e.k = "counter" ->        \* Counter(n) / Counter64(n) for any integer n = (neg, mag)
         << <<IF e.neg THEN "counter_clamp" ELSE "counter_wrap", e.out = CounterOf(e.neg, e.mag, e.octets)>> >>
    [] e.k = "udecode" ->        \* decoding content octets of an unsigned application type
         << <<"unsigned_negative", ~e.outneg>>, <<"unsigned_value", e.out = UCanon(e.content)>> >>
    [] e.k = "ticks2delta" -> << <<"ticks_to_timedelta", e.out = TicksToDelta(e.d, e.r)>> >>
    [] e.k = "delta2ticks" -> << <<"timedelta_to_ticks", e.out = DeltaToTicks(e.days, e.secs, e.micros)>> >>
    [] e.k = "ticksround" ->  << <<"ticks_roundtrip", e.out = <<e.d, e.r>> >> >>
    [] e.k = "ip" -> << <<"ip_conversion", e.packed = e.octets /\ e.back = e.octets /\ e.text = e.dotted>> >>
    [] e.k = "roundtrip" ->      \* bytes(obj) judged by the independent decoder, and decode(bytes(obj)) == obj
         LET d == Decoded1(e.enc) IN
         << <<"roundtrip_malformed", d.wf>>, <<"roundtrip_tag", d.tag = TagOfKind(e.kind)>>,
            <<"roundtrip_encoded_value", d.v = e.val>>, <<"roundtrip_decoded_value", e.back = e.val>> >>
    [] OTHER -> << <<"MACHINERY_unknown_event", FALSE>> >>

Init == tid \in 1..Len(Traces) /\ l = 1 /\ verdict = <<"ok", 0>>
Step == /\ l <= Len(Ev)
        /\ LET v == FirstFalse(On(Ev[l])) IN verdict' = IF verdict[1] = "ok" /\ v # "ok" THEN <<v, l>> ELSE verdict
        /\ l' = l + 1 /\ UNCHANGED tid
Fin  == /\ l = Len(Ev) + 1 /\ PrintT(<<"VERDICT", tid, verdict[1], verdict[2]>>) /\ l' = l + 1 /\ UNCHANGED <<tid, verdict>>
Next == Step \/ Fin
Spec == Init /\ [][Next]_vars
====
