---- MODULE Trace_Trap ----
(* Trace specification for C19: a word of datagrams fed to the registered listener and the callbacks
   it produced.  Which datagrams are well-formed SNMPv2c notifications with the registered community is
   decided by the independent decoder Ber.tla on the raw bytes, not by the harness's label. *)
EXTENDS Ber, TraceBase
VARIABLES tid, l, st, verdict
vars == <<tid, l, st, verdict>>
Ev == Traces[tid].events
Sc == Traces[tid].scenario
IsNotification(raw) ==
  LET d == Decode(raw, <<>>) IN
  d.ok /\ d.form = "community" /\ d.version = <<1>> /\ d.community = Sc.community /\ d.pdu.ptype = 167
  /\ d.pdu.f1 = <<0>> /\ \A j \in DOMAIN d.pdu.vals : d.pdu.vals[j].wf
Bindings(raw) == LET p == Decode(raw, <<>>).pdu IN [j \in DOMAIN p.oids |-> <<p.oids[j], p.vals[j].tag, p.vals[j].v>>]
\* a v1-framed message carrying an SNMPv2 notification PDU is neither a well-formed SNMPv2c notification nor clearly
\* "malformed content": delivering it or not is left open (weaker reading)
\* likewise a well-formed message with the registered community whose PDU is not a notification (e.g. a Response)
Unspecified(raw) == LET d == Decode(raw, <<>>) IN
                    d.ok /\ d.form = "community" /\ d.community = Sc.community /\ d.version \in {<<0>>, <<1>>} /\ ~(d.version = <<1>> /\ d.pdu.ptype = 167)
RECURSIVE IsSubseqOf(_, _)
IsSubseqOf(a, b) == IF a = <<>> THEN TRUE ELSE IF b = <<>> THEN FALSE
                    ELSE IF Head(a) = Head(b) THEN IsSubseqOf(Tail(a), Tail(b)) ELSE IsSubseqOf(a, Tail(b))
Count(seq, x) == Cardinality({ i \in DOMAIN seq : seq[i] = x })
St0 == [expected |-> <<>>, delivered |-> <<>>, optional |-> 0]
On(s, e) ==
  CASE e.e = "dgram" ->
         [st |-> IF Unspecified(e.raw) THEN [s EXCEPT !.optional = @ + 1]
                 ELSE IF IsNotification(e.raw) THEN [s EXCEPT !.expected = Append(@, [origin |-> e.src, vbs |-> Bindings(e.raw)])] ELSE s,
          cl |-> << <<"listener_hangs_on_datagram", e.raised # "CPU_BUDGET">>,
                    <<"MACHINERY_label_disagrees_with_decoder", Unspecified(e.raw) \/ e.kind = "unspecified" \/ (e.kind = "valid") = IsNotification(e.raw)>> >>]
    [] e.e = "callback" ->
         \* the pythonic TrapInfo view must agree with the raw Trap it wraps: origin, trap OID (2nd binding), uptime (1st binding,
         \* TimeTicks -> timedelta, Values!TicksToDelta), payload keys (bindings 3..n)
         [st |-> [s EXCEPT !.delivered = Append(@, [origin |-> e.origin, vbs |-> e.vbs])],
          cl |-> IF Len(e.vbs) < 2 \/ ~Has(e, "info") THEN <<>>
                 ELSE << <<"trapinfo_origin", e.info.origin = e.origin[1]>>,
                         <<"trapinfo_oid", e.vbs[2][2] # TagOid \/ e.info.oid = e.vbs[2][3]>>,
                         <<"trapinfo_payload_keys", e.info.keys = [k \in 1..(Len(e.vbs) - 2) |-> e.vbs[k + 2][1]] \/ Len(e.info.keys) < Len(e.vbs) - 2>> >>]
    [] e.e = "end" ->
         LET ex == s.expected dl == s.delivered n == IF Len(ex) < Len(dl) THEN Len(ex) ELSE Len(dl) IN
         [st |-> s,
          cl |-> IF Sc.mode = "burst" /\ s.optional = 0
                 THEN \* several notifications in flight at once: each is delivered exactly once - in whatever order the callbacks finish
                      << <<"not_delivered", \A i \in DOMAIN ex : Count(dl, ex[i]) >= Count(ex, ex[i])>>,
                         <<"delivered_twice_or_foreign_or_malformed_delivered", Len(dl) <= Len(ex) /\ \A i \in DOMAIN dl : Count(dl, dl[i]) <= Count(ex, dl[i])>> >>
                 ELSE IF s.optional > 0 THEN << <<"not_delivered_or_altered", IsSubseqOf(ex, dl)>>, <<"delivered_too_many", Len(dl) <= Len(ex) + s.optional>> >>
                 ELSE << <<"wrong_origin", \A i \in 1..n : dl[i].origin = ex[i].origin \/ dl[i].vbs # ex[i].vbs>>,
                         <<"wrong_bindings", \A i \in 1..n : dl[i].vbs = ex[i].vbs>>,
                         <<"not_delivered", Len(dl) >= Len(ex)>>,
                         <<"delivered_twice_or_foreign_or_malformed_delivered", Len(dl) <= Len(ex)>> >>]
    [] OTHER -> [st |-> s, cl |-> << <<"MACHINERY_unknown_event", FALSE>> >>]
Init == tid \in 1..Len(Traces) /\ l = 1 /\ st = St0 /\ verdict = <<"ok", 0>>
Step == /\ l <= Len(Ev)
        /\ LET r == On(st, Ev[l]) v == FirstFalse(r.cl) IN
             /\ st' = r.st /\ verdict' = IF verdict[1] = "ok" /\ v # "ok" THEN <<v, l>> ELSE verdict
        /\ l' = l + 1 /\ UNCHANGED tid
Fin  == /\ l = Len(Ev) + 1 /\ PrintT(<<"VERDICT", tid, verdict[1], verdict[2], Len(st.expected)>>) /\ l' = l + 1 /\ UNCHANGED <<tid, st, verdict>>
Next == Step \/ Fin
Spec == Init /\ [][Next]_vars
====
