---- MODULE MC_Walk ----
(* Model-checking instance of Walk: constants are bound in the generated .cfg to the universes below. *)
EXTENDS Walk, WalkUniverse
====
