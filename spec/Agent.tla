---- MODULE Agent ----
(* The environment: a standards-conformant SNMP agent over a finite MIB
   (RFC 3416 section 4.2: GetRequest, GetNextRequest, GetBulkRequest), and a
   stateless *faulty* agent given by an arbitrary successor function F.
   A binding is a record [oid, eomv]; the walk logic must not depend on the
   values: in the harness they are injective functions of the OID or - the
   `volatile` scenarios, Walk!Volatile - differ in every binding served, since
   RFC 3416 asks the agent for no snapshot (F28: two bindings of one instance
   in one response carried different values and the client tried to order them). *)
EXTENDS Oid

EOMVTOK == <<0>>        \* marker used as F's "endOfMibView" answer

\* one GETNEXT binding of a conformant agent
VB(db, o) == IF HasNext(db, o) THEN [oid |-> NextOid(db, o), eomv |-> FALSE]
             ELSE [oid |-> o, eomv |-> TRUE]
\* one GETNEXT binding of the faulty agent F (a function on requested OIDs; anything else -> endOfMibView)
VBF(F, o) == IF o \in DOMAIN F /\ F[o] # EOMVTOK THEN [oid |-> F[o], eomv |-> FALSE]
             ELSE [oid |-> o, eomv |-> TRUE]

\* ag = [faulty |-> BOOLEAN, f |-> F, set |-> db]
Bind(ag, o) == IF ag.faulty THEN VBF(ag.f, o) ELSE VB(ag.set, o)
Row(ag, cur) == [i \in DOMAIN cur |-> Bind(ag, cur[i])]

\* GETBULK repeaters: the full row-major repetition matrix for m repetitions (RFC 3416 4.2.3)
RECURSIVE Rows(_, _, _)
Rows(ag, cur, m) == IF m <= 0 \/ cur = <<>> THEN <<>>       \* (a negative max-repetitions counts as 0: RFC 3416 4.2.3)
                    ELSE LET row == Row(ag, cur) IN row \o Rows(ag, [i \in DOMAIN cur |-> row[i].oid], m - 1)

\* conformant truncations of a GETBULK response: any prefix holding at least one full repetition
\* (full max-repetitions, fewer repetitions, a partial last row, early stop after an all-endOfMibView row)
BulkPrefixLens(n, full) == IF Len(full) < n THEN {Len(full)} ELSE n..Len(full)
\* RFC 3416 4.2.3 in full: the agent may remove any number of bindings from the end - a response may end inside its FIRST repetition
\* (many requested columns, large values); at least one binding remains
BulkPrefixLensAny(n, full) == IF Len(full) = 0 THEN {0} ELSE 1..Len(full)

Conformant(db) == [faulty |-> FALSE, f |-> <<>>, set |-> db]
FaultyAgent(F) == [faulty |-> TRUE, f |-> F, set |-> {}]

\* is `got` (a sequence of [oid, eomv]) an answer the agent may give to GETNEXT / GETBULK(m) on `oids` ?
IsGetNextAnswer(ag, oids, got) == got = Row(ag, oids)
IsBulkAnswer(ag, oids, m, got) ==
  LET full == Rows(ag, oids, m) IN
  /\ Len(got) \in BulkPrefixLensAny(Len(oids), full)
  /\ got = SubSeq(full, 1, Len(got))
====
