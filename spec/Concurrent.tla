---- MODULE Concurrent ----
(* N operations on one shared client, interleaved at their only yield points (the awaits on the
   sender).  Shared state is exactly what the code shares: the clock that request ids are read from,
   the v3 discovery cache of the message processing model.  Per-operation state (request id, PDU, walk
   progress) lives in the coroutine frame.  The environment releases parked requests in any order; a
   response is always the agent's answer to the request it is released for.
   Pin* constants introduce the kinds of sharing that would break isolation (self-tests):
     PinSharedRequestId   the request id is kept on the client object, not in the coroutine
     PinSingleSlotMsgId   the v3 layer remembers one outstanding msgID and refuses any other
     PinSharedSeen        walks share one "already yielded" set *)
EXTENDS Naturals, Sequences, FiniteSets, TLC
CONSTANTS Ops,            \* set of operation ids
          Len0,           \* Ops -> number of exchanges of the operation when run alone
          Overlap,        \* pairs of walk operations whose subtrees overlap (they would yield common instances)
          V3, MaxTicks, PinSharedRequestId, PinSingleSlotMsgId, PinSharedSeen
VARIABLES pc, step, myId, sharedId, slotId, clock, ticks, got, failed, disco, discoRuns, seenBy
vars == <<pc, step, myId, sharedId, slotId, clock, ticks, got, failed, disco, discoRuns, seenBy>>
Init == /\ pc = [o \in Ops |-> "ready"] /\ step = [o \in Ops |-> 0] /\ myId = [o \in Ops |-> 0] /\ sharedId = 0 /\ slotId = 0
        /\ clock = 10 /\ ticks = 0 /\ got = [o \in Ops |-> 0] /\ failed = [o \in Ops |-> FALSE]
        /\ disco = (IF V3 THEN "none" ELSE "done") /\ discoRuns = 0 /\ seenBy = {}
Tick == /\ ticks < MaxTicks /\ clock' = clock + 1 /\ ticks' = ticks + 1
        /\ UNCHANGED <<pc, step, myId, sharedId, slotId, got, failed, disco, discoRuns, seenBy>>
\* first use of a v3 client: the discovery exchange (may be started by several operations before the first reply arrives)
StartDisco(o) == /\ pc[o] = "ready" /\ disco = "none" /\ pc' = [pc EXCEPT ![o] = "disco"] /\ discoRuns' = discoRuns + 1
                 /\ UNCHANGED <<step, myId, sharedId, slotId, clock, ticks, got, failed, disco, seenBy>>
EndDisco(o) == /\ pc[o] = "disco" /\ disco' = "done" /\ pc' = [pc EXCEPT ![o] = "ready"]
               /\ UNCHANGED <<step, myId, sharedId, slotId, clock, ticks, got, failed, discoRuns, seenBy>>
\* encode: read the clock, build the request, hand it to the sender, park
Send(o) == /\ pc[o] = "ready" /\ disco = "done" /\ step[o] < Len0[o] /\ ~failed[o]
           /\ myId' = [myId EXCEPT ![o] = clock] /\ sharedId' = clock /\ slotId' = clock
           /\ pc' = [pc EXCEPT ![o] = "parked"]
           /\ UNCHANGED <<step, clock, ticks, got, failed, disco, discoRuns, seenBy>>
\* the response to o's request arrives (it echoes the id o's request carried)
Release(o) ==
  /\ pc[o] = "parked"
  /\ LET respId == myId[o]
         checked == IF PinSharedRequestId THEN sharedId ELSE myId[o]
         refused == respId # checked \/ (V3 /\ PinSingleSlotMsgId /\ respId # slotId)
         shadowed == PinSharedSeen /\ \E p \in Ops : p # o /\ (<<o, p>> \in Overlap \/ <<p, o>> \in Overlap) /\ p \in seenBy
     IN /\ failed' = [failed EXCEPT ![o] = refused]
        /\ got' = [got EXCEPT ![o] = IF refused \/ shadowed THEN @ ELSE @ + 1]
        /\ seenBy' = seenBy \cup {o}
        /\ step' = [step EXCEPT ![o] = @ + 1]
        /\ pc' = [pc EXCEPT ![o] = IF refused \/ step[o] + 1 = Len0[o] THEN "done" ELSE "ready"]
  /\ UNCHANGED <<myId, sharedId, slotId, clock, ticks, disco, discoRuns>>
Next == Tick \/ \E o \in Ops : StartDisco(o) \/ EndDisco(o) \/ Send(o) \/ Release(o)
Spec == Init /\ [][Next]_vars
\* C14: every operation ends with exactly the result it has alone (all its exchanges answered, none refused, nothing dropped)
SoloResult == \A o \in Ops : pc[o] = "done" => (~failed[o] /\ got[o] = Len0[o])
DiscoveryBounded == discoRuns <= Cardinality(Ops)
====
