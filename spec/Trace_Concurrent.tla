---- MODULE Trace_Concurrent ----
(* Trace specification for C14: a set of operations started together on shared (or separate) clients and a
   release order; every operation's outcome is compared with the outcome it has when run alone. *)
EXTENDS Naturals, Sequences, FiniteSets, TraceBase
VARIABLES tid, l, st, verdict
vars == <<tid, l, st, verdict>>
Ev == Traces[tid].events
Sc == Traces[tid].scenario
\* requests waiting for their answer: a BAG of operation names (one operation may have several requests in flight at once)
RemoveOne(seq, x) == LET i == CHOOSE k \in DOMAIN seq : seq[k] = x IN SubSeq(seq, 1, i - 1) \o SubSeq(seq, i + 1, Len(seq))
InBag(seq, x) == \E k \in DOMAIN seq : seq[k] = x
St0 == [parked |-> <<>>, rets |-> 0]
On(s, e) ==
  CASE e.e = "start" -> [st |-> s, cl |-> <<>>]
    [] e.e = "park" -> [st |-> [s EXCEPT !.parked = Append(@, e.op)], cl |-> <<>>]
    [] e.e = "release" -> [st |-> [s EXCEPT !.parked = IF InBag(@, e.op) THEN RemoveOne(@, e.op) ELSE @], cl |-> << <<"MACHINERY_release_without_park", InBag(s.parked, e.op)>> >>]
    [] e.e = "ret" ->
         LET solo == Sc.solo[e.op] IN
         [st |-> [s EXCEPT !.rets = @ + 1],
          cl |-> << <<"operation_never_finished", e.kind # "stuck">>,
                    \* every operation of the catalogue succeeds on a healthy agent; a baseline that fails was disturbed by clients used earlier on this loop
                    <<"fails_even_alone_after_other_clients_ran:" \o solo.result, solo.kind = "result">>,
                    <<"exception_under_interleaving:" \o e.result, e.kind = solo.kind \/ e.kind # "exc">>,
                    <<"result_differs_from_solo", e.kind = solo.kind /\ e.result = solo.result>>,
                    \* ... including what the transport was asked to do for it (timeout, retries of every request of the operation)
                    <<"transport_settings_differ_from_solo", ~Has(e, "transport") \/ ~Has(solo, "transport") \/ e.transport = solo.transport>> >>]
    [] OTHER -> [st |-> s, cl |-> << <<"MACHINERY_unknown_event", FALSE>> >>]
Init == tid \in 1..Len(Traces) /\ l = 1 /\ st = St0 /\ verdict = <<"ok", 0>>
Step == /\ l <= Len(Ev)
        /\ LET r == On(st, Ev[l]) v == FirstFalse(r.cl) IN
             /\ st' = r.st /\ verdict' = IF verdict[1] = "ok" /\ v # "ok" THEN <<v, l>> ELSE verdict
        /\ l' = l + 1 /\ UNCHANGED tid
Fin  == /\ l = Len(Ev) + 1 /\ PrintT(<<"VERDICT", tid, verdict[1], verdict[2], st.rets>>) /\ l' = l + 1 /\ UNCHANGED <<tid, st, verdict>>
Next == Step \/ Fin
Spec == Init /\ [][Next]_vars
====
