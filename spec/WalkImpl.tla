---- MODULE WalkImpl ----
(* Implementation-shaped operators of the walk family, transcribed from
     src/puresnmp/api/raw.py  multigetnext, _bulkget_varbinds, _bulkwalk_fetcher, deduped_varbinds, multiwalk
     src/puresnmp/util.py     group_varbinds, get_unfinished_walk_oids
   code <-> operator table
     multigetnext: cut at first endOfMibView ............ CutEomv
     multigetnext: "requested < retrieved" check ........ GetNextOk
     _bulkget_varbinds: cut at first endOfMibView ....... CutEomv
     bulkget's OrderedDict keyed by OID (pinned fetcher). Collapse
     group_varbinds: varbinds[i::n], re-keying .......... Group
     get_unfinished_walk_oids: v[-1].oid in k, sorted ... Unfinished
     deduped_varbinds: sorted(groups), containment, set . NewYields
*)
EXTENDS Agent

RECURSIVE CutEomv(_)
CutEomv(s) == IF s = <<>> \/ Head(s).eomv THEN <<>> ELSE <<Head(s)>> \o CutEomv(Tail(s))
RECURSIVE Collapse(_, _)       \* OrderedDict keyed by OID: a repeated key keeps its first position
Collapse(s, seen) == IF s = <<>> THEN <<>>
                     ELSE IF Head(s).oid \in seen THEN Collapse(Tail(s), seen)
                     ELSE <<Head(s)>> \o Collapse(Tail(s), seen \cup {Head(s).oid})
Oids(s) == [i \in DOMAIN s |-> s[i].oid]
EveryNth(s, i, n) == LET cnt == IF Len(s) < i THEN 0 ELSE (Len(s) - i) \div n + 1
                     IN [k \in 1..cnt |-> s[i + (k - 1) * n]]
GetNextOk(req, out) == \A i \in 1..Len(out) : OidLess(req[i], out[i])

\* group_varbinds(varbinds, effective_roots, user_roots): sequence of [key, grp]
Group(vbs, eff, user) ==
  LET n == Len(eff)
      raw == [i \in 1..n |-> [key |-> eff[i], grp |-> EveryNth(vbs, i, n)]]
      homes(k) == { j \in 1..Len(user) : OidIn(user[j], k) }
      mapped == SelectSeq(raw, LAMBDA g : homes(g.key) # {})
  IN IF user = <<>> \/ mapped = <<>> THEN raw
     ELSE [i \in 1..Len(mapped) |-> [key |-> user[CHOOSE j \in homes(mapped[i].key) : TRUE], grp |-> mapped[i].grp]]
\* get_unfinished_walk_oids: <<root, last oid>> for every group whose last binding is still inside its root
Unfinished(groups) ==
  LET live == SelectSeq(groups, LAMBDA g : g.grp # <<>> /\ OidIn(g.key, g.grp[Len(g.grp)]))
      pairs == [i \in 1..Len(live) |-> <<live[i].key, live[i].grp[Len(live[i].grp)]>>]
  IN SortSeq(pairs, LAMBDA a, b : OidLess(a[1], b[1]))
RECURSIVE Dedup(_, _, _)
Dedup(s, roots, yielded) ==
  IF s = <<>> THEN <<>>
  ELSE LET o == Head(s) IN
       IF (\E j \in 1..Len(roots) : OidIn(roots[j], o)) /\ o \notin yielded
       THEN <<o>> \o Dedup(Tail(s), roots, yielded \cup {o})
       ELSE Dedup(Tail(s), roots, yielded)
NewYields(groups, roots, yielded) ==
  LET gs == SortSeq([i \in 1..Len(groups) |-> groups[i].grp], SeqOidLess)
  IN Dedup(Flatten(gs), roots, yielded)
====
