---- MODULE Transport ----
(* The UDP sender  src/puresnmp/transport.py: send_udp + SNMPClientProtocol  as a state machine:
   one attempt = open a connected datagram endpoint, send the packet, wait `timeout` for the future
   that datagram_received / error_received / connection_lost resolve, abort on timeout, and (fixed
   tree) close the transport in a finally block whatever happened.  The environment is a script of
   per-attempt outcomes:
     reply  a datagram arrives after timeout/2        none   nothing arrives
     late   a datagram arrives after 3*timeout/2      two    two datagrams arrive after timeout/2
     icmp   the OS reports an error (error_received)  lost   the connection is lost (connection_lost(exc))
     gone   the transport goes away cleanly before any answer (connection_lost(None)): nobody resolves the future, the attempt times out
   PinNoFinallyClose re-enables the pinned tree (no close on the error path; fixed by ab1e880). *)
EXTENDS Naturals, Sequences, FiniteSets, TLC
CONSTANTS MaxRetries, Timeouts, PinNoFinallyClose
Outcomes == {"reply", "none", "late", "two", "icmp", "lost", "gone", "empty"}    \* empty: a zero-length reply datagram (a reply like any other)
VARIABLES retries, timeout, script, k, left, sock, sent, now, pc, outcome, lateDrops
vars == <<retries, timeout, script, k, left, sock, sent, now, pc, outcome, lateDrops>>

Init == /\ retries \in 1..MaxRetries /\ timeout \in Timeouts
        /\ script \in [1..retries -> Outcomes]
        /\ k = 0 /\ left = retries /\ sock = <<>> /\ sent = 0 /\ now = 0 /\ pc = "loop"
        /\ outcome = [kind |-> "pending", attempt |-> 0, at |-> 0] /\ lateDrops = 0

\* while retries > 0: create_datagram_endpoint -> connection_made -> sendto
OpenAndSend == /\ pc = "loop" /\ left > 0
               /\ k' = k + 1 /\ sock' = Append(sock, "open") /\ sent' = sent + 1 /\ pc' = "wait"
               /\ UNCHANGED <<retries, timeout, script, left, now, outcome, lateDrops>>
Close(s, i) == [s EXCEPT ![i] = "closed"]
\* the await on the future ends: by a datagram, an error, a lost connection or the timeout
Wait ==
  /\ pc = "wait"
  /\ LET o == script[k] IN
     CASE o \in {"reply", "two", "empty"} ->
            \* datagram_received: set_result, transport.close(); a second datagram is dropped by the closed transport
            /\ now' = now + timeout \div 2 /\ sock' = Close(sock, k)
            /\ outcome' = [kind |-> "result", attempt |-> k, at |-> now + timeout \div 2] /\ pc' = "done"
            /\ UNCHANGED <<left, lateDrops>>
       [] o \in {"none", "late", "gone"} ->
            \* wait_for times out: transport.abort(), Timeout; re-raised when this was the last attempt
            /\ now' = now + timeout /\ sock' = Close(sock, k)
            /\ lateDrops' = lateDrops + (IF o = "late" THEN 1 ELSE 0)
            /\ IF left = 1 THEN outcome' = [kind |-> "Timeout", attempt |-> k, at |-> now + timeout] /\ pc' = "done" /\ left' = left
               ELSE outcome' = outcome /\ pc' = "loop" /\ left' = left - 1
       [] o = "icmp" ->
            \* error_received: set_exception; the exception leaves send_udp; only the finally block closes the transport
            /\ now' = now + timeout \div 2
            /\ sock' = IF PinNoFinallyClose THEN sock ELSE Close(sock, k)
            /\ outcome' = [kind |-> "OSError", attempt |-> k, at |-> now + timeout \div 2] /\ pc' = "done"
            /\ UNCHANGED <<left, lateDrops>>
       [] o = "lost" ->
            \* connection_lost(exc): the transport is already gone; set_exception; the exception leaves send_udp
            /\ now' = now + timeout \div 2 /\ sock' = Close(sock, k)
            /\ outcome' = [kind |-> "OSError", attempt |-> k, at |-> now + timeout \div 2] /\ pc' = "done"
            /\ UNCHANGED <<left, lateDrops>>
  /\ UNCHANGED <<retries, timeout, script, k, sent>>
Done == pc = "done" /\ UNCHANGED vars
Next == OpenAndSend \/ Wait \/ Done
Spec == Init /\ [][Next]_vars /\ WF_vars(OpenAndSend \/ Wait)

\* ---------------------------------------------------------------- properties (C13)
Unanswered(i) == script[i] \in {"none", "late", "gone"}
FirstAnswered == IF \E i \in 1..retries : ~Unanswered(i) THEN CHOOSE i \in 1..retries : ~Unanswered(i) /\ \A j \in 1..(i - 1) : Unanswered(j) ELSE 0
BoundedRetries == sent <= retries
NoSocketLeftOpen == pc = "done" => \A i \in DOMAIN sock : sock[i] = "closed"
TimeoutExactly == pc = "done" => ((outcome.kind = "Timeout") <=> (\A i \in 1..retries : Unanswered(i)))
TimeoutAtRetriesTimesTimeout == (pc = "done" /\ outcome.kind = "Timeout") => (outcome.at = retries * timeout /\ sent = retries)
FirstReplyReturned == (pc = "done" /\ FirstAnswered # 0) =>
                        /\ outcome.attempt = FirstAnswered /\ sent = FirstAnswered
                        /\ outcome.at = (FirstAnswered - 1) * timeout + timeout \div 2
                        /\ (script[FirstAnswered] \in {"reply", "two", "empty"} <=> outcome.kind = "result")
Terminates == <>(pc = "done")
====
