---- MODULE AgentOpsErr ----
(* documented exception class per error-status (puresnmp.exc; RFC 3416 section 3) *)
ErrClass(st) == CASE st = 1 -> "TooBig" [] st = 2 -> "NoSuchOID" [] st = 3 -> "BadValue" [] st = 4 -> "ReadOnly"
                  [] st = 5 -> "GenErr" [] st = 6 -> "NoAccess" [] st = 7 -> "WrongType" [] st = 8 -> "WrongLength"
                  [] st = 9 -> "WrongEncoding" [] st = 10 -> "WrongValue" [] st = 11 -> "NoCreation"
                  [] st = 12 -> "InconsistentValue" [] st = 13 -> "ResourceUnavailable" [] st = 14 -> "CommitFailed"
                  [] st = 15 -> "UndoFailed" [] st = 16 -> "AuthorizationError" [] st = 17 -> "NotWritable"
                  [] st = 18 -> "InconsistentName" [] OTHER -> "ErrorResponse"
====
