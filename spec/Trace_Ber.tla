---- MODULE Trace_Ber ----
(* Trace specification over recorded datagrams: TLC evaluates the independent decoder Ber.tla on
   the bytes the real client emitted (C05), on the bytes it was fed together with what the
   caller received (C06), and on re-encodings (C06).  One event per trace. *)
EXTENDS Ber, TraceBase

VARIABLES tid, l, verdict
vars == <<tid, l, verdict>>
Ev == Traces[tid].events

PduClauses(p, i) ==
  << <<"pdu_type", p.ptype = i.ptype>>,
     <<"request_id", p.reqid = i.reqid>>,
     <<IF i.ptype = 165 THEN "bulk_fields" ELSE "error_fields_nonzero", p.f1 = i.f1 /\ p.f2 = i.f2>>,
     <<"varbind_count", Len(p.oids) = Len(i.oids)>>,
     <<"varbind_oids", p.oids = i.oids>>,
     <<"varbind_values_wellformed", \A j \in DOMAIN p.vals : p.vals[j].wf>>,
     <<"varbind_values", [j \in DOMAIN p.vals |-> <<p.vals[j].tag, p.vals[j].v>>] = i.vals>> >>

\* C05: the emitted datagram decodes to exactly the intended request
OnEmit(e) ==
  LET d == Decode(e.raw, e.plain) i == e.intended IN
  IF ~d.ok THEN << <<"malformed_ber:" \o d.why, FALSE>> >>
  ELSE IF i.form = "community"
  THEN << <<"message_form", d.form = "community">>, <<"version", d.version = i.version>>, <<"community", d.community = i.community>> >>
       \o PduClauses(d.pdu, i)
  ELSE << <<"message_form", d.form = "v3">>, <<"version", d.version = <<3>>>>,
          \* msgID: the property does not tie it to the request-id; RFC 3412 wants an INTEGER (0..2147483647).  Accepted: the request-id itself
          \* (what the library does) or any value of that range
          <<"v3_header_msgid", d.msgid = i.msgid \/ (Len(d.msgid) <= 4 /\ d.msgid[1] < 128)>>, <<"v3_header_maxsize", d.maxsize # <<0>>>>,
          <<"v3_header_flags", d.flags = i.flags>>, <<"v3_header_secmodel", d.secmodel = <<3>>>>,
          <<"v3_secparams_engine", d.engine = i.engine>>, <<"v3_secparams_boots", d.boots = i.boots>>,
          <<"v3_secparams_time", d.time = i.time>>, <<"v3_secparams_user", d.user = i.user>>,
          <<"v3_secparams_digest_length", Len(d.auth) = i.authlen>>,
          <<"v3_secparams_priv", (i.flags \div 2) % 2 = 1 <=> d.priv # <<>>>>,
          <<"v3_scoped_ctxengine", d.ctxengine = i.ctxengine>>, <<"v3_scoped_ctxname", d.ctxname = i.ctxname>> >>
       \o PduClauses(d.pdu, i)

\* C06: what the caller received is what the independent decoder reads from the same bytes
OnDeliver(e) ==
  LET d == Decode(e.raw, e.plain) IN
  IF ~d.ok THEN << <<"MACHINERY_harness_bytes_not_wellformed:" \o d.why, FALSE>> >>
  ELSE LET p == d.pdu
           want == [j \in DOMAIN p.vals |-> <<p.vals[j].tag, p.vals[j].v>>] IN
       << <<"MACHINERY_harness_bytes_not_intended", want = e.intended /\ \A j \in DOMAIN p.vals : p.vals[j].wf>>,
          <<"rejected_wellformed", e.got.kind = "result">>,
          <<"binding_count", e.got.kind # "result" \/ Len(e.got.vals) = Len(want)>>,
          <<"type_mismatch", e.got.kind # "result" \/ \A j \in DOMAIN want : e.got.vals[j][1] = want[j][1]>>,
          <<"value_mismatch", e.got.kind # "result" \/ e.got.vals = want>>,
          <<"oid_mismatch", e.got.kind # "result" \/ ~Has(e.got, "oids") \/ e.got.oids = p.oids>> >>

\* C06: re-encoding a decoded object yields an encoding of the same content
Content(what, b, plain) ==
  CASE what = "message" -> Decode(b, plain)
    [] what = "pdu" -> LET h == Hdr(b, 1, Len(b) + 1) IN IF ~h.ok \/ h.ce # Len(b) + 1 THEN Fail("top") ELSE DecodePdu(b, h)
    [] what = "scoped" -> LET h == Hdr(b, 1, Len(b) + 1) IN IF ~h.ok \/ h.ce # Len(b) + 1 THEN Fail("top") ELSE DecodeScoped(b, h)
    [] what = "usm" -> LET h == Hdr(b, 1, Len(b) + 1) us == Kids(b, h.cs, h.ce) IN
                       IF ~h.ok \/ ~Shape(us, <<TagStr, TagInt, TagInt, TagStr, TagStr, TagStr>>) THEN Fail("usm")
                       ELSE [ok |-> TRUE, why |-> "", engine |-> By(b, us[1]), boots |-> Canon(By(b, us[2])), time |-> Canon(By(b, us[3])),
                             user |-> By(b, us[4]), auth |-> By(b, us[5]), priv |-> By(b, us[6])]
Strip(r) == IF Has(r, "authStart") THEN [r EXCEPT !.authStart = 0] ELSE r
OnReencode(e) ==
  LET a == Content(e.what, e.inb, e.plain) IN
  IF ~a.ok THEN << <<"MACHINERY_harness_bytes_not_wellformed:" \o a.why, FALSE>> >>
  ELSE IF e.outb = <<>> THEN << <<"reencode_failed", FALSE>> >>
  ELSE LET o == Content(e.what, e.outb, e.plain) IN
       << <<"reencode_malformed", o.ok>>, <<"reencode_differs", o.ok => Strip(o) = Strip(a)>> >>

On(e) == CASE e.e = "emit" -> OnEmit(e) [] e.e = "deliver" -> OnDeliver(e) [] e.e = "reencode" -> OnReencode(e)
           [] OTHER -> << <<"MACHINERY_unknown_event", FALSE>> >>

Init == tid \in 1..Len(Traces) /\ l = 1 /\ verdict = <<"ok", 0>>
Step == /\ l <= Len(Ev)
        /\ LET v == FirstFalse(On(Ev[l])) IN verdict' = IF verdict[1] = "ok" /\ v # "ok" THEN <<v, l>> ELSE verdict
        /\ l' = l + 1 /\ UNCHANGED tid
Fin  == /\ l = Len(Ev) + 1 /\ PrintT(<<"VERDICT", tid, verdict[1], verdict[2]>>) /\ l' = l + 1 /\ UNCHANGED <<tid, verdict>>
Next == Step \/ Fin
Spec == Init /\ [][Next]_vars
====
