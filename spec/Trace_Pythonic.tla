---- MODULE Trace_Pythonic ----
(* Trace specification for C15: one event per wrapper call with the type of every node of the result
   (dictionary keys included), the canonical serialisation of the result and of the harness's own
   element-wise conversion of what the raw client returned for the same exchange. *)
EXTENDS Pythonic, TraceBase
VARIABLES tid, l, verdict
vars == <<tid, l, verdict>>
Ev == Traces[tid].events
FirstBadNode(ns) == IF \E i \in DOMAIN ns : ~NodeOk(ns[i]) THEN ns[CHOOSE i \in DOMAIN ns : ~NodeOk(ns[i]) /\ \A j \in 1..(i - 1) : NodeOk(ns[j])] ELSE [path |-> "", type |-> "", kind |-> ""]
On(e) ==
  IF e.e # "call" THEN << <<"MACHINERY_unknown_event", FALSE>> >>
  ELSE IF e.raw_failed # e.py_failed THEN << <<"wrapper_and_raw_disagree_on_failure", FALSE>> >>
  ELSE IF e.raw_failed THEN <<>>
  ELSE LET bad == FirstBadNode(e.nodes) IN
       << <<"non_builtin_type:" \o bad.type \o "@" \o bad.path, bad.type = "">>,
          <<"top_level_type", e.nodes[1].type \in TopOf(e.op)>>,
          <<"not_equal_to_pythonized_raw", e.got = e.want>> >>
Init == tid \in 1..Len(Traces) /\ l = 1 /\ verdict = <<"ok", 0>>
Step == /\ l <= Len(Ev)
        /\ LET v == FirstFalse(On(Ev[l])) IN verdict' = IF verdict[1] = "ok" /\ v # "ok" THEN <<v, l>> ELSE verdict
        /\ l' = l + 1 /\ UNCHANGED tid
Fin  == /\ l = Len(Ev) + 1 /\ PrintT(<<"VERDICT", tid, verdict[1], verdict[2]>>) /\ l' = l + 1 /\ UNCHANGED <<tid, verdict>>
Next == Step \/ Fin
Spec == Init /\ [][Next]_vars
====
