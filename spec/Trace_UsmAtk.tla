---- MODULE Trace_UsmAtk ----
(* Trace specification for C09: every recorded attack on an authentic response must end in an exception or
   in exactly the authentic result; a Report can only surface as an error.  Structural forgeries carry
   their symbolic form (sym): the monitor checks that it is a message the Dolev-Yao attacker of Usm.tla
   can send (harness guard) and compares the outcome Usm!Process predicts with the observed one (drift). *)
EXTENDS UsmDefs, TraceBase
VARIABLES tid, l, tverdict
tvars == <<tid, l, tverdict>>
Ev == Traces[tid].events
Lvl(e) == IF e.level = "authpriv" THEN "authpriv" ELSE "auth"
SymMsg(e) ==
  LET s == e.sym a == Authentic(Lvl(e), FALSE)
      c == [auth |-> s.auth, priv |-> s.priv, user |-> s.user, len127 |-> FALSE,
            data |-> [form |-> s.form, key |-> s.ekey, pdu |-> [type |-> s.ptype, reqid |-> s.reqid, vbs |-> s.vbs, es |-> s.es]]]
  IN [c |-> c, mac |-> CASE s.mac = "stale" -> a.mac [] s.mac = "Kx" -> [kind |-> "mac", key |-> "Kx", over |-> c]
                         [] OTHER -> [kind |-> s.mac]]
On(e) ==
  IF Has(e.sym, "bitflip")
  THEN << <<"attack_hangs_client", e.ret.kind # "hang">>,
          <<"forged_result_accepted", e.ret.kind = "exc" \/ e.ret.same>>,
          <<"client_unusable_after_attack", e.usable_after>> >>
  ELSE LET m == SymMsg(e) IN
       << <<"MACHINERY_attack_not_derivable_by_attacker", CanSend(Authentic(Lvl(e), FALSE), m)>>,
          <<"MACHINERY_attack_did_not_reach_client", e.reached>>,
          <<"attack_hangs_client", e.ret.kind # "hang">>,
          <<"forged_result_accepted", e.ret.kind = "exc" \/ e.ret.same>>,
          <<"report_returned_as_data", e.sym.ptype # "Report" \/ e.ret.kind = "exc">>,
          <<"client_unusable_after_attack", e.usable_after>> >>
Api == IF Traces[tid].scenario.op \in {"walk", "walk_warn", "bulkwalk"} THEN "walk" ELSE "single"
Drift(e) == IF Has(e.sym, "bitflip") THEN 0 ELSE IF Caller(Api, Process(Lvl(e), SymMsg(e))).kind = e.ret.kind THEN 0 ELSE 1

TInit == tid \in 1..Len(Traces) /\ l = 1 /\ tverdict = <<"ok", 0>>
TStep == /\ l <= Len(Ev)
         /\ LET v == FirstFalse(On(Ev[l])) IN tverdict' = IF tverdict[1] = "ok" /\ v # "ok" THEN <<v, l>> ELSE tverdict
         /\ l' = l + 1 /\ UNCHANGED tid
TFin  == /\ l = Len(Ev) + 1 /\ PrintT(<<"VERDICT", tid, tverdict[1], tverdict[2], Drift(Ev[1])>>) /\ l' = l + 1 /\ UNCHANGED <<tid, tverdict>>
TNext == TStep \/ TFin
TSpec == TInit /\ [][TNext]_tvars
====
