---- MODULE Table ----
(* Conceptual tables: util.tablify over the result of a walk (Client.table addressed by the entry OID,
   num_base_nodes = len(entry); Client.bulktable addressed by the table OID, num_base_nodes = len(table) + 1).
   A table is a set of cells <<column, index, value>> under entry = table \o <<1>>, optionally with
   neighbouring objects before / after it.  The walk itself is C01/C02's subject (Walk.tla); here it is
   taken to deliver exactly the instances strictly below the root, in ascending order. *)
EXTENDS Oid, TLC
CONSTANTS Cols, Idxs, MaxCells
\* index universes: single and multi-component indexes, components 0 (rows such as 10.0.0.0), shared prefixes
IdxQ == { <<1>>, <<2>>, <<1, 0>>, <<1, 2>>, <<0>> }
IdxT == { <<1>>, <<2>>, <<10>>, <<1, 0>>, <<1, 2>>, <<0>>, <<0, 0>>, <<2, 1, 0>> }
TableOid == <<7, 2>>
EntryOid == <<7, 2, 1>>
\* objects before the table, after it, and a sibling whose arc's decimal spelling extends the table's (2 / 20);
\* per SMI the table node has exactly one child (the entry), so nothing else lives directly under it
Neighbours == { <<7, 1, 0>>, <<7, 3, 0>>, <<7, 20, 1, 1>> }
CellOid(c) == EntryOid \o <<c[1]>> \o c[2]
\* tablify, transcribed: rows kept in first-seen order, keyed by the index rendered as a string (here: the index itself)
RECURSIVE Tablify(_, _, _)
Tablify(vbs, nbase, rows) ==
  IF vbs = <<>> THEN rows
  ELSE LET oid == Head(vbs)[1] val == Head(vbs)[2]
           tail == SubSeq(oid, nbase + 1, Len(oid))
           col == tail[1] idx == Tail(tail)
           hit == { i \in DOMAIN rows : rows[i].idx = idx }
       IN Tablify(Tail(vbs), nbase,
                  IF hit = {} THEN Append(rows, [idx |-> idx, cells |-> { <<col, val>> }])
                  ELSE [i \in DOMAIN rows |-> IF i \in hit THEN [rows[i] EXCEPT !.cells = { c \in @ : c[1] # col } \cup { <<col, val>> }] ELSE rows[i]])
VARIABLES cells, nbrs, variant, result, pc
vars == <<cells, nbrs, variant, result, pc>>
AllCells == { <<c, i>> : c \in Cols, i \in Idxs }
Init == /\ cells \in { s \in SUBSET AllCells : Cardinality(s) <= MaxCells } /\ nbrs \in SUBSET Neighbours
        /\ variant \in {"table", "bulktable"} /\ result = <<>> /\ pc = "fetch"
Db == { CellOid(c) : c \in cells } \cup nbrs
Val(o) == <<"v", o>>
Fetch == /\ pc = "fetch" /\ pc' = "done"
         /\ LET root == IF variant = "table" THEN EntryOid ELSE TableOid
                walked == SetToSortSeq({ o \in Db : StrictlyBelow(root, o) }, OidLess)
                vbs == [i \in DOMAIN walked |-> <<walked[i], Val(walked[i])>>]
            IN result' = Tablify(vbs, IF variant = "table" THEN Len(EntryOid) ELSE Len(TableOid) + 1, <<>>)
         /\ UNCHANGED <<cells, nbrs, variant>>
Done == pc = "done" /\ UNCHANGED vars
Next == Fetch \/ Done
Spec == Init /\ [][Next]_vars
\* C16: one row per distinct index; each cell exactly once under its column; complete index; nothing foreign
Expected == { [idx |-> i, cells |-> { <<c[1], Val(CellOid(c))>> : c \in { x \in cells : x[2] = i } }] : i \in { c[2] : c \in cells } }
RowsExact == pc = "done" => (ToSet(result) = Expected /\ Len(result) = Cardinality(Expected))
====
