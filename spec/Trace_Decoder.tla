---- MODULE Trace_Decoder ----
(* Trace specification for C20: one event per malformed datagram delivered to the real client (as a
   response, as a discovery reply, or to the trap listener).  CPU time and memory are measured by the
   harness (ITIMER_VIRTUAL process CPU time; resident set growth); the monitor judges them against the
   budget  c0 + c1 * length  and requires the client to stay usable. *)
EXTENDS Naturals, Sequences, TraceBase
VARIABLES tid, l, verdict
vars == <<tid, l, verdict>>
Ev == Traces[tid].events
CpuBudgetMs(len) == 250 + len \div 20            \* 0.25 s + 50 microseconds per octet (>= 100 x the measured normal cost)
MemBudgetKb(len) == 20000 + len * 2
On(e) ==
  IF e.e # "case" THEN << <<"MACHINERY_unknown_event", FALSE>> >>
  ELSE << <<"cpu_budget_exceeded", e.outcome # "CPU_BUDGET" /\ e.cpu_ms <= CpuBudgetMs(e.len)>>,
          <<"memory_budget_exceeded", e.outcome # "MEM_BUDGET" /\ e.rss_growth_kb <= MemBudgetKb(e.len)>>,
          <<"endless_requests", e.outcome # "REQUEST_FLOOD">>,
          <<"processing_did_not_complete", e.outcome \in {"result", "exception", "dropped"}>>,
          <<"client_unusable_after", e.followup_ok>> >>
Init == tid \in 1..Len(Traces) /\ l = 1 /\ verdict = <<"ok", 0>>
Step == /\ l <= Len(Ev)
        /\ LET v == FirstFalse(On(Ev[l])) IN verdict' = IF verdict[1] = "ok" /\ v # "ok" THEN <<v, l>> ELSE verdict
        /\ l' = l + 1 /\ UNCHANGED tid
Fin  == /\ l = Len(Ev) + 1 /\ PrintT(<<"VERDICT", tid, verdict[1], verdict[2]>>) /\ l' = l + 1 /\ UNCHANGED <<tid, verdict>>
Next == Step \/ Fin
Spec == Init /\ [][Next]_vars
====
