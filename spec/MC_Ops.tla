---- MODULE MC_Ops ----
EXTENDS Ops
InstsV == { <<1,1>>, <<1,2>>, <<2,1>> }
ReqV   == { <<1>>, <<1,1>>, <<1,2>>, <<2,1>>, <<9>> }
AllOps == {"get", "multiget", "getnext", "multigetnext", "set", "multiset", "bulkget"}
PertData == {"none", "extra", "dropped", "oversize", "set_other"}
PertId   == {"none", "id_plus", "id_minus", "id_arb", "wrong_comm", "wrong_ver"}
PertErr  == {"err"}
PertForeign == {"none", "wrong_comm", "wrong_ver"}
StatQ == {1, 2, 5, 18, 19, 255, -1}
StatT == (1..19) \cup {255, -1}
AllV == {"v1", "v2c", "v3"}
====
