---- MODULE Trace_Transport ----
(* Trace specification for C13.  A virtual-time trace lists every operation on the fake datagram
   transports (open, sendto, deliver, dropped, error, lost, close, abort) with virtual milliseconds,
   the call's end (ret) and `settled` after control returned to the loop and late datagrams arrived.
   A loopback trace is one summary event measured on real sockets. *)
EXTENDS Naturals, Sequences, FiniteSets, TraceBase
VARIABLES tid, l, st, verdict
vars == <<tid, l, st, verdict>>
Ev == Traces[tid].events
Sc == Traces[tid].scenario
Unanswered(i) == Sc.script[i] \in {"none", "late", "gone"}
AllUnanswered == \A i \in 1..Sc.retries : Unanswered(i)
FirstAnswered == IF AllUnanswered THEN 0 ELSE CHOOSE i \in 1..Sc.retries : ~Unanswered(i) /\ \A j \in 1..(i - 1) : Unanswered(j)
St0 == [opened |-> {}, closed |-> {}, sent |-> 0, discarded |-> 0, lastSend |-> 0, firstData |-> <<>>, firstAt |-> 0, got |-> FALSE, errAt |-> 0, erred |-> FALSE, errTimes |-> {},
        ret |-> [none |-> TRUE], retAt |-> 0]
(* The clauses are written against what crossed the seam - transmissions, and what reached an OPEN socket of the call (deliver / error /
   lost are only logged then) - not against how many sockets the sender uses: a sender that opens one socket per attempt and one that
   retransmits over a single socket are judged alike.  The script only drives the environment (n-th transmission -> n-th outcome). *)
On(s, e) ==
  CASE e.e = "open" -> [st |-> [s EXCEPT !.opened = @ \cup {e.k}], cl |-> <<>>]
    [] e.e = "sendto" ->
         [st |-> [s EXCEPT !.sent = @ + 1, !.lastSend = e.t],
          cl |-> << <<"too_many_transmissions", s.sent + s.discarded + 1 <= Sc.retries>>,
                    <<"payload_changed", e.payload = Sc.payload>>,
                    <<"waited_not_timeout", s.sent + s.discarded = 0 \/ e.t - s.lastSend = Sc.timeout>>,
                    <<"transmission_after_return", Has(s.ret, "none")>>,
                    <<"transmission_after_answer", ~s.got>> >>]
    [] e.e = "sendto_on_closed" ->
         \* a datagram handed to a transport the sender itself has closed / aborted never reaches the wire; one handed to a socket that
         \* went away on its own is an attempt all the same
         [st |-> [s EXCEPT !.discarded = @ + 1, !.lastSend = e.t], cl |-> << <<"retransmission_never_reaches_wire", Has(e, "by") /\ e.by = "env">> >>]
    [] e.e = "deliver" -> [st |-> IF s.got THEN s ELSE [s EXCEPT !.got = TRUE, !.firstData = e.data, !.firstAt = e.t], cl |-> <<>>]
    [] e.e = "dropped" -> [st |-> s, cl |-> <<>>]
    [] e.e = "error" -> [st |-> [(IF s.erred THEN s ELSE [s EXCEPT !.erred = TRUE, !.errAt = e.t]) EXCEPT !.errTimes = @ \cup {e.t}], cl |-> <<>>]
    [] e.e = "lost" -> [st |-> [(IF s.erred THEN s ELSE [s EXCEPT !.erred = TRUE, !.errAt = e.t]) EXCEPT !.closed = @ \cup {e.k}, !.errTimes = @ \cup {e.t}], cl |-> <<>>]
    [] e.e \in {"close", "abort", "gone"} -> [st |-> [s EXCEPT !.closed = @ \cup {e.k}], cl |-> <<>>]
    [] e.e = "ret" ->
         \* judged by KIND of outcome against what reached an open socket of the call before the return.  The property does not say what an
         \* OS error (ICMP) reported for one attempt must do: it may end the call with that error, or count as an unanswered attempt.
         LET dataFirst == s.got /\ (~s.erred \/ s.firstAt <= s.errAt) IN
         [st |-> [s EXCEPT !.ret = e, !.retAt = e.t],
          cl |-> IF e.kind = "result"
                 THEN << <<"returned_not_first_reply", s.got>>,
                         <<"reply_modified", e.data = s.firstData>>,
                         <<"returned_late", e.t = s.firstAt>> >>
                 ELSE IF e.cls = "Timeout"
                 THEN << <<"timeout_not_raised", TRUE>>,
                         <<"returned_not_first_reply", ~s.got>>,                       \* a reply had reached the call: it is returned, not a Timeout
                         <<"timeout_at_wrong_time", e.t = Sc.retries * Sc.timeout>>,
                         <<"fewer_transmissions_than_retries", s.sent + s.discarded = Sc.retries>> >>
                 ELSE << <<"timeout_not_raised", s.erred>>,                              \* another exception needs an OS error / lost connection as its cause
                         <<"returned_not_first_reply", ~s.got \/ s.firstAt >= e.t>>,    \* no datagram had reached the call before
                         <<"os_error_swallowed", e.cls # "Timeout">>,
                         <<"returned_late", e.t \in s.errTimes>> >>]       \* it is raised when (one of) the error(s) is reported
    [] e.e = "settled" ->
         [st |-> s, cl |-> << <<"socket_left_open", s.opened \subseteq s.closed>>,
                              <<"call_never_returned", ~Has(s.ret, "none")>> >>]
    [] e.e = "loopback" ->
         LET n == Len(e.seen)
             \* replies that are late for their own attempt but arrive while a later attempt is still waited for: a sender that keeps one
             \* socket open receives them (they are the first reply then), a sender with one socket per attempt cannot - both are accepted
             UsableLate == { i \in 1..(Sc.retries - 1) : Sc.script[i] = "late" }
             LateData == { <<82, 69, 80, 76, 89, i, 1>> : i \in UsableLate } IN
         [st |-> s,
          cl |-> << <<"socket_left_open", e.leaked_fds <= 0>>,
                    <<"too_many_transmissions", n <= Sc.retries>>,
                    <<"payload_changed", \A i \in 1..n : e.seen[i] = e.seen[1]>>,
                    <<"timeout_not_raised", ~AllUnanswered \/ (e.ret.kind = "exc" /\ e.ret.cls = "Timeout") \/ (e.ret.kind = "result" /\ e.ret.data \in LateData)>>,
                    <<"fewer_transmissions_than_retries", ~AllUnanswered \/ e.ret.kind = "result" \/ n = Sc.retries>>,
                    <<"timeout_too_early", ~AllUnanswered \/ e.ret.kind = "result" \/ e.elapsed_ms >= Sc.retries * Sc.timeout - 5>>,
                    <<"returned_not_first_reply", AllUnanswered \/ Sc.script[FirstAnswered] \notin {"reply", "two"}
                                                   \/ (e.ret.kind = "result" /\ (e.ret.data = <<82, 69, 80, 76, 89, FirstAnswered, 1>>
                                                                                 \/ e.ret.data \in { d \in LateData : d[6] < FirstAnswered }))>>,
                    <<"os_error_swallowed", AllUnanswered \/ Sc.script[FirstAnswered] # "icmp" \/ e.ret.kind = "exc">> >>]
    [] OTHER -> [st |-> s, cl |-> << <<"MACHINERY_unknown_event", FALSE>> >>]

Init == tid \in 1..Len(Traces) /\ l = 1 /\ st = St0 /\ verdict = <<"ok", 0>>
Step == /\ l <= Len(Ev)
        /\ LET r == On(st, Ev[l]) v == FirstFalse(r.cl) IN
             /\ st' = r.st /\ verdict' = IF verdict[1] = "ok" /\ v # "ok" THEN <<v, l>> ELSE verdict
        /\ l' = l + 1 /\ UNCHANGED tid
Fin  == /\ l = Len(Ev) + 1 /\ PrintT(<<"VERDICT", tid, verdict[1], verdict[2], st.sent>>) /\ l' = l + 1 /\ UNCHANGED <<tid, st, verdict>>
Next == Step \/ Fin
Spec == Init /\ [][Next]_vars
====
