---- MODULE Usm ----
(* One SNMPv3 exchange of the client as a state machine over the symbolic definitions of UsmDefs.tla:
   Encode -> AgentStep (RFC 3414 3.2 at the agent) -> Deliver (authentic response, or anything the
   Dolev-Yao attacker can build from it) -> Decode (process_incoming_message).  Decides C09, C10, C11. *)
EXTENDS UsmDefs

\* ------------------------------------------------------------------ state machine: one exchange
VARIABLES level, rtype, ctx, len127, api, avbs, pc, req, verdict, msg, outcome
vars == <<level, rtype, ctx, len127, api, avbs, pc, req, verdict, msg, outcome>>
Disco == [engine |-> "E", boots |-> 3, time |-> 1000]
Pending == [kind |-> "pending", type |-> "-", vbs |-> "-"]

Init == /\ level \in Levels /\ rtype \in ReqTypes /\ ctx \in {"", "C"} /\ len127 \in BOOLEAN
        /\ avbs \in {"good", "usmStats"}      \* what the authentic response carries: any objects, or the usmStats counters themselves
        /\ api \in (IF rtype \in {"GetNext", "GetBulk"} THEN Apis ELSE {"single"})      \* walks are made of GETNEXT / GETBULK exchanges
        /\ pc = "encode" /\ req = <<>> /\ verdict = "-" /\ msg = <<>> /\ outcome = Pending
Encode == /\ pc = "encode" /\ req' = Request(level, rtype, Disco, ctx) /\ pc' = "agent"
          /\ UNCHANGED <<level, rtype, ctx, len127, api, avbs, verdict, msg, outcome>>
AgentStep == /\ pc = "agent" /\ verdict' = AgentVerdict(level, req, "E", 3, 1000) /\ pc' = "wire"
             /\ UNCHANGED <<level, rtype, ctx, len127, api, avbs, req, msg, outcome>>
\* the network hands the client either the authentic response or anything the attacker can build from it
Deliver == /\ pc = "wire"
           /\ IF Attack /\ level # "noauth"
              THEN \E m \in AttackerMsgs(AuthenticV(level, len127, avbs)) : CanSend(AuthenticV(level, len127, avbs), m) /\ msg' = m
              ELSE msg' = AuthenticV(level, len127, avbs)
           /\ pc' = "decode"
           /\ UNCHANGED <<level, rtype, ctx, len127, api, avbs, req, verdict, outcome>>
Decode == /\ pc = "decode" /\ outcome' = Caller(api, Process(level, msg)) /\ pc' = "done"
          /\ UNCHANGED <<level, rtype, ctx, len127, api, avbs, req, verdict, msg>>
Done == pc = "done" /\ UNCHANGED vars
Next == Encode \/ AgentStep \/ Deliver \/ Decode \/ Done
Spec == Init /\ [][Next]_vars

\* ------------------------------------------------------------------ properties
\* C10: the request is accepted by the independent agent; flags state the level and mark confirmed-class PDUs reportable
RequestAccepted == pc \in {"wire", "decode", "done"} => verdict = "ok"
FlagsExact == pc # "encode" => /\ req.flags.auth = HasAuth(level) /\ req.flags.priv = HasPriv(level)
                                /\ req.flags.rep = (rtype \in Confirmed)
SecParamsFromDiscovery == pc # "encode" => (req.sec = [engine |-> "E", boots |-> 3, time |-> 1000, user |-> "u"]
                                            /\ req.ctxEngine = IF ctx = "" THEN "E" ELSE ctx)
AuthenticAccepted == (pc = "done" /\ msg = AuthenticV(level, len127, avbs)) => outcome = [kind |-> "result", type |-> "Response", vbs |-> avbs]
\* C11: with privacy credentials the scoped PDU only travels as ciphertext under the localised privacy key
NeverPlain == pc # "encode" => (HasPriv(level) <=> (req.data.form = "enc" /\ req.data.key = <<"Kp", "E">> /\ req.data.salt # ""))
\* C09: whatever the attacker sends, the caller gets an exception or exactly the authentic result; Reports only surface as errors
NoForgery == (HasAuth(level) /\ outcome.kind = "result") => outcome.vbs = avbs
ReportIsError == outcome.kind = "result" => outcome.type # "Report"
====
