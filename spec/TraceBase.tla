---- MODULE TraceBase ----
(* Common skeleton of the trace specifications ("total monitors").
   A trace file is a JSON array of records [scenario, events]; TLC starts one
   behaviour per trace (tid), consumes one event per step, evaluates the
   property clauses of the step and remembers the first clause that failed;
   after the last event it prints <<"VERDICT", tid, clause, event index, ...>>.
   The monitor's state is a function of the trace prefix, so validation is
   linear and every trace gets a verdict. *)
EXTENDS Naturals, Sequences, FiniteSets, TLC, Json, IOUtils, TLCExt

Traces == JsonDeserialize(IOEnv.TRACE_FILE)

\* first clause <<name, condition>> whose condition is FALSE, else "ok"
RECURSIVE FirstFalse(_)
FirstFalse(cl) == IF cl = <<>> THEN "ok" ELSE IF ~Head(cl)[2] THEN Head(cl)[1] ELSE FirstFalse(Tail(cl))
Has(r, f) == f \in DOMAIN r
====
