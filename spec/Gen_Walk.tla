---- MODULE Gen_Walk ----
(* Scenario enumeration: TLC writes the environment side of Walk's initial states
   (database x root list, or faulty successor function x root list) as JSON for
   the Python driver to replay into the real client. *)
EXTENDS WalkUniverse, Json, IOUtils, TLC
Tier == IOEnv.GEN_TIER
Out  == IOEnv.GEN_OUT
Kind == IOEnv.GEN_KIND
C  == IF Tier = "thorough" THEN CandT ELSE CandQ
CF == IF Tier = "thorough" THEN CandFT ELSE CandFQ
Conf == { [db |-> SetToSortSeq(d, OidLess), roots |-> r] : d \in SUBSET C, r \in RootListsOf(RootC, 3) }
FUniv == CF \cup RootF
FSeq(F) == LET dom == SetToSortSeq(FUniv, OidLess) IN [i \in DOMAIN dom |-> <<dom[i], F[dom[i]]>>]
Faul == { [f |-> FSeq(F), roots |-> r] : F \in [FUniv -> CF \cup {<<0>>}], r \in RootListsOf(RootF, 2) }
ASSUME Kind = "conformant" => JsonSerialize(Out, SetToSeq(Conf))
ASSUME Kind = "faulty" => JsonSerialize(Out, SetToSeq(Faul))
FUnivN == CandFN \cup RootF
FSeqN(F) == LET dom == SetToSortSeq(FUnivN, OidLess) IN [i \in DOMAIN dom |-> <<dom[i], F[dom[i]]>>]
FaulN == { [f |-> FSeqN(F), roots |-> r] : F \in [FUnivN -> FRangeN \cup {<<0>>}], r \in RootListsOf(RootF, 2) }
ASSUME Kind = "faulty_nested" => JsonSerialize(Out, SetToSeq(FaulN))
VARIABLE x
Init == x = 0
Next == UNCHANGED x
Spec == Init /\ [][Next]_x
====
