---- MODULE Trace_Table ----
(* Trace specification for C16: the rows returned by table / bulktable (raw and pythonic) for a database
   holding a conceptual table and neighbouring objects.  Rows are compared as a set (documented as unordered). *)
EXTENDS Oid, TraceBase
VARIABLES tid, l, verdict
vars == <<tid, l, verdict>>
Ev == Traces[tid].events
Sc == Traces[tid].scenario
Entry == Sc.entry
Cells == { i \in DOMAIN Sc.db : StrictlyBelow(Entry, Sc.db[i]) /\ Len(Sc.db[i]) >= Len(Entry) + 2 }
ColOf(o) == o[Len(Entry) + 1]
IdxOf(o) == SubSeq(o, Len(Entry) + 2, Len(o))
Expected == { [idx |-> ix, cells |-> { <<ColOf(Sc.db[i]), Sc.toks[i]>> : i \in { j \in Cells : IdxOf(Sc.db[j]) = ix } }] : ix \in { IdxOf(Sc.db[i]) : i \in Cells } }
Got(e) == { [idx |-> e.rows[k].idx, cells |-> { <<e.rows[k].cells[m][1], e.rows[k].cells[m][2]>> : m \in DOMAIN e.rows[k].cells }] : k \in DOMAIN e.rows }
AllGotCells(e) == UNION { { <<e.rows[k].idx, e.rows[k].cells[m][1], e.rows[k].cells[m][2]>> : m \in DOMAIN e.rows[k].cells } : k \in DOMAIN e.rows }
AllExpCells == { <<IdxOf(Sc.db[i]), ColOf(Sc.db[i]), Sc.toks[i]>> : i \in Cells }
On(e) ==
  CASE e.e = "rows" ->
         << <<"row_for_one_index_twice", \A a, b \in DOMAIN e.rows : a # b => e.rows[a].idx # e.rows[b].idx>>,
            <<"cell_missing", AllExpCells \subseteq AllGotCells(e)>>,
            <<"cell_foreign", \A c \in AllGotCells(e) : \E x \in AllExpCells : x[3] = c[3]>>,
            <<"cell_in_wrong_row_or_column", AllGotCells(e) \subseteq AllExpCells>>,
            <<"row_count", Len(e.rows) = Cardinality(Expected)>>,
            <<"index_wrong", Got(e) = Expected>> >>
    [] e.e = "end" -> << <<"unexpected_exception", e.outcome = "done">> >>
    [] e.e \in {"call", "req", "resp", "yield"} -> <<>>
    [] OTHER -> << <<"MACHINERY_unknown_event", FALSE>> >>
Init == tid \in 1..Len(Traces) /\ l = 1 /\ verdict = <<"ok", 0>>
Step == /\ l <= Len(Ev)
        /\ LET v == FirstFalse(On(Ev[l])) IN verdict' = IF verdict[1] = "ok" /\ v # "ok" THEN <<v, l>> ELSE verdict
        /\ l' = l + 1 /\ UNCHANGED tid
Fin  == /\ l = Len(Ev) + 1 /\ PrintT(<<"VERDICT", tid, verdict[1], verdict[2]>>) /\ l' = l + 1 /\ UNCHANGED <<tid, verdict>>
Next == Step \/ Fin
Spec == Init /\ [][Next]_vars
====
