---- MODULE Pythonic ----
(* Shape algebra of the pythonic wrapper (src/puresnmp/api/pythonic.py): every node of a result is a
   built-in leaf, a permitted container, or a dictionary key of type str; the top-level container of
   each operation is fixed; and the value equals the element-wise pythonisation of the raw result. *)
EXTENDS Naturals, Sequences, FiniteSets
Leaves == {"int", "bytes", "str", "NoneType", "datetime.timedelta", "ipaddress.IPv4Address"}
Containers == {"list", "tuple", "dict", "collections.OrderedDict", "puresnmp.varbind.PyVarBind", "puresnmp.util.BulkResult"}
KeyTypes == {"str"}
TopOf(op) == CASE op \in {"get", "set"} -> Leaves
               [] op = "getnext" -> {"puresnmp.varbind.PyVarBind"}
               [] op \in {"multiget", "walk", "multiwalk", "bulkwalk", "table", "bulktable"} -> {"list"}
               [] op = "multiset" -> {"dict"}
               [] op = "bulkget" -> {"puresnmp.util.BulkResult"}
NodeOk(n) == CASE n.kind = "leaf" -> n.type \in Leaves
               [] n.kind = "key" -> n.type \in KeyTypes
               [] n.kind = "container" -> n.type \in Containers
               [] OTHER -> FALSE
====
