---- MODULE UsmTime ----
(* USM timeliness over the whole life of a client (RFC 3414 sections 2.2, 2.3, 3.2 step 7):
   histories of  Request | Advance(d) | Reboot  over one client and one agent.
     agent : boots ab, engine time at (advances with the clock, 0 after a reboot)
     client: lc = the security model's local notion [boots, time, at = local clock when learned]
   Request transcribes V3MPM.encode (discovery first, seeding of the timing data),
   generate_request_message (time + elapsed local time) and update_engine_timing
   (resynchronise from every authentic message, incl. the notInTimeWindow Report).
   PinFrozen re-enables the pinned behaviour (discovery values re-sent for ever; fixed by bb6eea0). *)
EXTENDS Naturals, Integers, TLC
CONSTANTS PinFrozen, Steps, MaxDepth,
          InitBoots,    \* snmpEngineBoots values the agent may start with (0 is legal: a factory-fresh engine)
          Clients,      \* client objects created in this process for the one agent (each has its own security model = its own notion of the engine)
          PinSharedLcd  \* all clients share one notion (a class-level / default-argument dict: seeded C05-m8, C10-m8, C11-m8, C12-m7)
VARIABLES ab, at, now, lcs, rebootPending, failsSinceReboot, last, nprobe
vars == <<ab, at, now, lcs, rebootPending, failsSinceReboot, last, nprobe>>
None == [set |-> FALSE, boots |-> 0, time |-> 0, at |-> 0]
Init == /\ ab \in InitBoots /\ at = 1000 /\ now = 0 /\ lcs = [c \in Clients |-> None] /\ rebootPending = [c \in Clients |-> FALSE]
        /\ failsSinceReboot = [c \in Clients |-> 0] /\ last = "none" /\ nprobe = [c \in Clients |-> 0]
Advance(d) == /\ now' = now + d /\ at' = at + d /\ last' = "advance"
              /\ UNCHANGED <<ab, lcs, rebootPending, failsSinceReboot, nprobe>>
\* a reboot is "pending" for every client that holds a notion of the engine (it will be told by the first notInTimeWindow Report)
Reboot == /\ ab' = ab + 1 /\ at' = 0 /\ rebootPending' = [c \in Clients |-> nprobe[c] > 0] /\ failsSinceReboot' = [c \in Clients |-> 0] /\ last' = "reboot"
          /\ UNCHANGED <<now, lcs, nprobe>>
Abs(x) == IF x < 0 THEN -x ELSE x
Lc(c) == IF PinSharedLcd THEN lcs[CHOOSE k \in Clients : TRUE] ELSE lcs[c]
Request(c) ==
  LET discovered == nprobe[c] > 0                          \* this client object has run its discovery (V3MPM.disco)
      known == Lc(c)
      \* discovery: the probe is answered with the agent's boots / time; the timing is seeded only if the engine is not yet in the datastore
      d0 == IF known.set THEN known ELSE [set |-> TRUE, boots |-> ab, time |-> at, at |-> now]
      sentBoots == d0.boots
      sentTime == IF PinFrozen THEN d0.time ELSE d0.time + (now - d0.at)
      ok == sentBoots = ab /\ Abs(sentTime - at) <= 150
      newer == ab > d0.boots \/ (ab = d0.boots /\ at > d0.time)
      synced == IF ~PinFrozen /\ newer THEN [set |-> TRUE, boots |-> ab, time |-> at, at |-> now] ELSE d0
      slot == IF PinSharedLcd THEN CHOOSE k \in Clients : TRUE ELSE c
  IN /\ lcs' = [lcs EXCEPT ![slot] = synced]
     /\ nprobe' = [nprobe EXCEPT ![c] = IF discovered THEN @ ELSE @ + 1]
     /\ failsSinceReboot' = [failsSinceReboot EXCEPT ![c] = IF ok THEN @ ELSE @ + 1]
     /\ rebootPending' = [rebootPending EXCEPT ![c] = IF ~PinFrozen THEN FALSE ELSE @]
     /\ last' = IF ok THEN "ok" ELSE IF rebootPending[c] THEN "fail_after_reboot" ELSE "fail_without_reboot"
     /\ UNCHANGED <<ab, at, now>>
Next == (\E d \in Steps : Advance(d)) \/ Reboot \/ (\E c \in Clients : Request(c))
Spec == Init /\ [][Next]_vars
Depth == TLCGet("level") <= MaxDepth
\* C12 (weaker reading): a request fails only if the agent rebooted since the client last heard from it, and then only once
OnlyAfterReboot == last # "fail_without_reboot"
AtMostOneFailPerReboot == \A c \in Clients : failsSinceReboot[c] <= 1
DiscoveryOnce == \A c \in Clients : nprobe[c] <= 1
====
