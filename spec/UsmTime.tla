---- MODULE UsmTime ----
(* USM timeliness over the whole life of a client (RFC 3414 sections 2.2, 2.3, 3.2 step 7):
   histories of  Request | Advance(d) | Reboot  over one client and one agent.
     agent : boots ab, engine time at (advances with the clock, 0 after a reboot)
     client: lc = the security model's local notion [boots, time, at = local clock when learned]
   Request transcribes V3MPM.encode (discovery first, seeding of the timing data),
   generate_request_message (time + elapsed local time) and update_engine_timing
   (resynchronise from every authentic message, incl. the notInTimeWindow Report).
   PinFrozen re-enables the pinned behaviour (discovery values re-sent for ever; fixed by bb6eea0). *)
EXTENDS Naturals, Integers, TLC
CONSTANTS PinFrozen, Steps, MaxDepth,
          InitBoots     \* snmpEngineBoots values the agent may start with (0 is legal: a factory-fresh engine)
VARIABLES ab, at, now, lc, rebootPending, failsSinceReboot, last, nprobe
vars == <<ab, at, now, lc, rebootPending, failsSinceReboot, last, nprobe>>
None == [set |-> FALSE, boots |-> 0, time |-> 0, at |-> 0]
Init == /\ ab \in InitBoots /\ at = 1000 /\ now = 0 /\ lc = None /\ rebootPending = FALSE /\ failsSinceReboot = 0 /\ last = "none" /\ nprobe = 0
Advance(d) == /\ now' = now + d /\ at' = at + d /\ last' = "advance"
              /\ UNCHANGED <<ab, lc, rebootPending, failsSinceReboot, nprobe>>
Reboot == /\ ab' = ab + 1 /\ at' = 0 /\ rebootPending' = lc.set /\ failsSinceReboot' = 0 /\ last' = "reboot"
          /\ UNCHANGED <<now, lc, nprobe>>
Abs(x) == IF x < 0 THEN -x ELSE x
Request ==
  LET d0 == IF lc.set THEN lc ELSE [set |-> TRUE, boots |-> ab, time |-> at, at |-> now]     \* discovery probe answered by the agent
      sentBoots == d0.boots
      sentTime == IF PinFrozen THEN d0.time ELSE d0.time + (now - d0.at)
      ok == sentBoots = ab /\ Abs(sentTime - at) <= 150
      newer == ab > d0.boots \/ (ab = d0.boots /\ at > d0.time)
      synced == IF ~PinFrozen /\ newer THEN [set |-> TRUE, boots |-> ab, time |-> at, at |-> now] ELSE d0
  IN /\ lc' = synced
     /\ nprobe' = IF lc.set THEN nprobe ELSE nprobe + 1
     /\ failsSinceReboot' = IF ok THEN failsSinceReboot ELSE failsSinceReboot + 1
     /\ rebootPending' = IF ~PinFrozen THEN FALSE ELSE rebootPending
     /\ last' = IF ok THEN "ok" ELSE IF rebootPending THEN "fail_after_reboot" ELSE "fail_without_reboot"
     /\ UNCHANGED <<ab, at, now>>
Next == (\E d \in Steps : Advance(d)) \/ Reboot \/ Request
Spec == Init /\ [][Next]_vars
Depth == TLCGet("level") <= MaxDepth
\* C12 (weaker reading): a request fails only if the agent rebooted since the client last heard from it, and then only once
OnlyAfterReboot == last # "fail_without_reboot"
AtMostOneFailPerReboot == failsSinceReboot <= 1
DiscoveryOnce == nprobe <= 1
====
