---- MODULE MC_Concurrent ----
EXTENDS Concurrent
Ops3 == {"get", "walk", "bulk"}
Len3 == [o \in Ops3 |-> CASE o = "get" -> 1 [] o = "walk" -> 3 [] OTHER -> 2]
Ops3b == {"walkA", "walkB", "set"}
Len3b == [o \in Ops3b |-> CASE o = "set" -> 1 [] OTHER -> 3]
OverlapAB == { <<"walkA", "walkB">> }
NoOverlap == {}
====
