---- MODULE WalkUniverse ----
(* The finite OID universes over which the walk family is explored (shared by
   MC_Walk and Gen_Walk so that the scenarios replayed into the real code are
   exactly TLC's initial states). *)
EXTENDS Oid
\* instance universe: empty subtree (11), adjacent subtrees (1,2), a root that is itself an instance (2),
\* nested depths (3.1 / 3.1.1), last subtree of the view (10), a root beyond the end of the view (11),
\* and arcs whose decimal spelling is a prefix of a sibling's (1 / 10 / 11) so that textual OID handling shows
CandQ  == { <<1,1>>, <<1,2>>, <<2>>, <<2,1>>, <<3,1>>, <<3,1,1>>, <<10,1>> }
CandT  == { <<1,1>>, <<1,2>>, <<1,3>>, <<2>>, <<2,1>>, <<2,2>>, <<3,1>>, <<3,1,1>>, <<10,1>> }
RootC  == { <<1>>, <<2>>, <<3>>, <<3,1>>, <<10>>, <<11>> }
\* faulty-agent universe: 2 / 3 OIDs inside root 1, one outside
CandFQ == { <<1,1>>, <<1,2>>, <<2,1>> }
CandFT == { <<1,1>>, <<1,2>>, <<1,3>>, <<2,1>> }
RootF  == { <<1>>, <<2>> }
\* nested faulty-agent universe: an instance and the object above it, so that the agent can answer with a proper prefix
\* of the requested OID (a smaller OID that "contains" it)
CandFN == { <<1,1>>, <<1,1,1>>, <<2,1>> }
FRangeN == CandFN \cup { <<1>> }          \* ... or with the walk root itself
RootListsOf(RC, k) == { r \in UNION { [1..i -> RC] : i \in 1..k } : PairwiseDisjoint(r) }
====
