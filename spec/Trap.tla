---- MODULE Trap ----
(* The trap listener: register_trap_callback -> listen -> SNMPTrapReceiverProtocol.datagram_received
   -> decode (sniff the version, create the message processing model for it, decode with the
   registered credentials, attach the sender's address) -> callback.  Input: words over
     valid(p, s)   well-formed SNMPv2c notification, matching community, payload shape p, source s
     foreign       well-formed notification with another community
     truncated / garbage / empty      malformed content
   PinBrokenDecode re-enables the pinned decoder (TypeError on every datagram; fixed by f378e6e),
   PinStopOnError models a listener that stops at the first datagram it cannot process. *)
EXTENDS Naturals, Sequences, TLC
CONSTANTS MaxLen, PinBrokenDecode, PinStopOnError
Payloads == {"p0", "p3"}
Sources == {"s4", "s6"}
Alphabet == [kind : {"valid"}, payload : Payloads, src : Sources] \cup [kind : {"foreign", "truncated", "garbage", "empty"}, payload : {"-"}, src : {"s4"}]
VARIABLES word, pos, delivered, alive
vars == <<word, pos, delivered, alive>>
Words == UNION { [1..n -> Alphabet] : n \in 0..MaxLen }
Init == word \in Words /\ pos = 1 /\ delivered = <<>> /\ alive = TRUE
Receive == /\ pos <= Len(word)
           /\ LET d == word[pos] IN
              IF ~alive THEN UNCHANGED <<delivered, alive>>
              ELSE IF PinBrokenDecode THEN UNCHANGED <<delivered, alive>>
              ELSE IF d.kind = "valid" THEN delivered' = Append(delivered, [payload |-> d.payload, src |-> d.src]) /\ UNCHANGED alive
              ELSE delivered' = delivered /\ alive' = ~PinStopOnError
           /\ pos' = pos + 1 /\ UNCHANGED word
Done == pos = Len(word) + 1 /\ UNCHANGED vars
Next == Receive \/ Done
Spec == Init /\ [][Next]_vars
Expected == LET v == SelectSeq(word, LAMBDA d : d.kind = "valid") IN [i \in DOMAIN v |-> [payload |-> v[i].payload, src |-> v[i].src]]
\* C19: every matching notification exactly once, in order, with its origin and payload; nothing else; the listener survives
DeliveredExactly == pos = Len(word) + 1 => delivered = Expected
NeverMore == Len(delivered) <= Len(Expected)
====
