---- MODULE Trace_Walk ----
(* Trace specification for the walk family: C01 (walk exactness), C02 (bulk walk =
   GETNEXT walk) and C03 (termination / no re-request under any agent).
   Property-level clauses judge only what crossed the seams (requests, the agent's
   answers, what the caller got); the implementation-shaped prediction of
   Walk.tla/WalkImpl.tla is advanced alongside and compared -> `drift`, which is
   reported but never a violation. *)
EXTENDS WalkImpl, TraceBase, AgentOpsErr

VARIABLES tid, l, st, verdict
vars == <<tid, l, st, verdict>>

Ev == Traces[tid].events
Sc == Traces[tid].scenario
IsFaulty == Has(Sc, "f")
FMap == LET ps == ToSet(Sc.f) IN [o \in { p[1] : p \in ps } |-> (CHOOSE p \in ps : p[1] = o)[2]]
Ag == IF IsFaulty THEN FaultyAgent(FMap) ELSE Conformant(ToSet(Sc.db))
Db == IF IsFaulty THEN {} ELSE ToSet(Sc.db)
Roots == Sc.roots
Lenient == Has(Sc, "errors") /\ Sc.errors = "warn"
ErrInjected == Has(Sc, "err")

St0 == [yielded |-> <<>>, served |-> {}, req |-> [oids |-> <<>>, kind |-> "none", maxrep |-> 0], nreq |-> 0,
        asked |-> {}, unanswered |-> {}, revealed |-> {}, gnFault |-> FALSE, nonAdv |-> FALSE, faultAt |-> 0, stuckSeen |-> FALSE, fragmented |-> FALSE,
        pred |-> <<>>, predEnd |-> FALSE, predY |-> <<>>, contFrom |-> <<>>, drift |-> 0]

AsVbs(vbs) == [i \in DOMAIN vbs |-> [oid |-> vbs[i][1], eomv |-> vbs[i][2] = -1]]
PrevOf(cf, root) == IF \E i \in DOMAIN cf : cf[i][1] = root
                    THEN (CHOOSE p \in ToSet(cf) : p[1] = root)[2] ELSE root

OnCall(s, e) ==
  [st |-> [s EXCEPT !.pred = SortOids(Roots)],
   cl |-> << <<"MACHINERY_call_matches_scenario", e.roots = Roots>> >>]

OnReq(s, e) ==
  LET dr == IF s.predEnd \/ e.oids # s.pred THEN 1 ELSE 0 IN
  [st |-> [s EXCEPT !.req = e, !.nreq = @ + 1, !.asked = @ \cup ToSet(e.oids), !.drift = @ + dr],
   \* a request reveals a new instance or is the last one of its column set (+2: the first and the last request); when the agent
   \* truncates GETBULK answers inside the first repetition every column is completed by requests of its own, and such a request
   \* may reveal nothing new (end of the view, or an instance another column's request had shown): one request per (column, asked OID)
   cl |-> << <<"request_budget_exceeded", s.nreq + 1 <= (IF s.fragmented THEN Len(Roots) * (Cardinality(s.revealed) + 1) ELSE Cardinality(s.revealed)) + 2>>,
             \* (an OID the agent's truncated answer had no binding for may - must - be asked for again)
             <<"re_requested_oid", \A i \in DOMAIN e.oids : e.oids[i] \notin s.asked \/ e.oids[i] \in s.unanswered>>,
             <<"request_after_fault", s.faultAt = 0>> >>]

OnResp(s, e) ==
  LET r == s.req
      n == Len(r.oids)
      got == AsVbs(e.vbs)
      pred(k) == IF k <= n THEN r.oids[k] ELSE got[k - n].oid
      nonadv(k) == ~got[k].eomv /\ ~OidLess(pred(k), got[k].oid)
      cut == CutEomv(got)
      gnF == r.kind = "getnext" /\ \E k \in 1..Len(cut) : k <= n /\ nonadv(k)
      anyNA == \E k \in DOMAIN got : nonadv(k)
      conf == IF r.kind = "getnext" THEN IsGetNextAnswer(Ag, r.oids, got)
              ELSE IsBulkAnswer(Ag, r.oids, r.maxrep, got)
      \* implementation-shaped prediction (Walk.tla Round)
      vbs == Oids(cut)
      ok == r.kind # "getnext" \/ GetNextOk(r.oids, vbs)
      groups == Group(vbs, r.oids, Roots)
      unf == Unfinished(groups)
      stuck == \E i \in DOMAIN unf : ~OidLess(PrevOf(s.contFrom, unf[i][1]), unf[i][2])
      stop == ~ok \/ stuck
      ys == IF stop THEN <<>> ELSE NewYields(groups, Roots, ToSet(s.predY))
  IN [st |-> [s EXCEPT !.revealed = @ \cup { got[k].oid : k \in { j \in DOMAIN got : ~got[j].eomv } },
                       !.served = @ \cup { <<e.vbs[k][1], e.vbs[k][2]>> : k \in DOMAIN e.vbs },
                       !.unanswered = { r.oids[k] : k \in { j \in DOMAIN r.oids : j > Len(e.vbs) } },
                       \* a GETBULK response that ends inside its first repetition: the bulk fetcher completes the repetition with further
                       \* requests (Walk.tla: `extra`); the round-by-round prediction below does not follow that inner loop
                       !.fragmented = @ \/ (r.kind = "bulk" /\ Len(e.vbs) < n /\ \A k \in DOMAIN got : ~got[k].eomv),
                       !.gnFault = @ \/ gnF, !.nonAdv = @ \/ anyNA,
                       \* the walk cannot go on from where the agent put it: for a root that is not finished, the last OID received does not lie
                       \* beyond the one it was continued from (whichever fetcher is used)
                       !.stuckSeen = @ \/ (ok /\ stuck),
                       !.faultAt = IF @ = 0 /\ gnF THEN l ELSE @,
                       !.pred = IF stop THEN <<>> ELSE [i \in DOMAIN unf |-> unf[i][2]],
                       !.predEnd = stop \/ unf = <<>>,
                       !.predY = @ \o ys,
                       !.contFrom = IF stop THEN @ ELSE unf],
      cl |-> << <<"MACHINERY_agent_answer_conformant", conf \/ e.es # 0>> >>]

OnYield(s, e) ==
  LET o == e.oid ys == s.yielded IN
  [st |-> [s EXCEPT !.yielded = Append(@, o)],
   cl |-> << <<"yield_outside_roots", \E j \in DOMAIN Roots : OidIn(Roots[j], o)>>,
             <<"yield_invented", <<o, e.val>> \in s.served>>,
             <<"yield_duplicate", o \notin ToSet(ys)>>,
             <<"single_root_order", IsFaulty \/ Len(Roots) > 1 \/ ys = <<>> \/ OidLess(ys[Len(ys)], o)>> >>]

OnEnd(s, e) ==
  LET ys == ToSet(s.yielded)
      isWalk == ~\E i \in DOMAIN Ev : Ev[i].e = "rows"
      dr == IF isWalk /\ e.outcome = "done" /\ s.yielded # s.predY THEN 1 ELSE 0
           + IF (e.outcome = "done") # (s.predEnd /\ (s.faultAt = 0 /\ ~(\E i \in DOMAIN s.pred : TRUE))) THEN 0 ELSE 0
  IN [st |-> [s EXCEPT !.drift = @ + dr],
      cl |-> IF Has(Sc, "idonly")
             THEN \* C07: an answer with a foreign request-id inside a walk raises InvalidResponseId in every error mode
                  << <<"foreign_id_ends_walk", e.outcome # "done">>, <<"wrong_id_other_exception", e.outcome = "InvalidResponseId">> >>
             ELSE IF ErrInjected /\ \E i \in DOMAIN Ev : Ev[i].e = "resp" /\ Ev[i].es # 0
             THEN \* C08: a walk-style operation propagates the agent's error (documented exception: noSuchName ends the walk)
                  IF Has(Sc.err, "foreign")
                  THEN \* C07: the error response is of another community / version: refused as such, it neither ends the walk nor is its error reported
                       << <<"foreign_message_ends_walk", e.outcome # "done">>, <<"foreign_message_error_reported", e.outcome = "SnmpError">> >>
                  ELSE IF Has(Sc.err, "iddelta") /\ Sc.err.iddelta # 0
                  THEN \* C07: the error response carries another request-id - it must not end (or fail) the walk as if it were the answer
                       << <<"wrong_id_error_ends_walk", e.outcome # "done">>, <<"wrong_id_other_exception", e.outcome = "InvalidResponseId">> >>
                  ELSE << <<"error_not_propagated", IF Sc.err.es = 2 THEN e.outcome \in {"done", "NoSuchOID"} ELSE e.outcome = ErrClass(Sc.err.es)>> >>
             ELSE IF ~IsFaulty
             THEN << <<"request_budget_exceeded", e.outcome # "BUDGET">>,
                     <<"unexpected_exception", e.outcome = "done">>,
                     <<"missing_instance", ~isWalk \/ StrictSet(Db, Roots) \subseteq ys>>,
                     <<"extra_instance", ys \subseteq StrictSet(Db, Roots) \cup OptSet(Db, Roots)>> >>
             ELSE << <<"request_budget_exceeded", e.outcome # "BUDGET">>,
                     <<"unexpected_exception", e.outcome \in {"done", "FaultySNMPImplementation"}>>,
                     <<"wrong_outcome_lenient", ~Lenient \/ e.outcome = "done">>,
                     <<"wrong_outcome_strict", Lenient \/ ~s.gnFault \/ e.outcome = "FaultySNMPImplementation">>,
                     \* ... and a strict walk that stops because the agent does not advance says so - it does not end as if the subtree were exhausted
                     <<"silent_end_on_non_advancing_agent", Lenient \/ ~s.stuckSeen \/ e.outcome = "FaultySNMPImplementation">>,
                     <<"spurious_faulty", e.outcome # "FaultySNMPImplementation" \/ s.nonAdv>> >>]

On(s, e) ==
  CASE e.e = "call"  -> OnCall(s, e)
    [] e.e = "req"   -> OnReq(s, e)
    [] e.e = "resp"  -> OnResp(s, e)
    [] e.e = "yield" -> OnYield(s, e)
    [] e.e = "rows"  -> [st |-> s, cl |-> <<>>]
    [] e.e = "end"   -> OnEnd(s, e)
    [] OTHER -> [st |-> s, cl |-> << <<"MACHINERY_unknown_event", FALSE>> >>]

Init == tid \in 1..Len(Traces) /\ l = 1 /\ st = St0 /\ verdict = <<"ok", 0>>
Step == /\ l <= Len(Ev)
        /\ LET r == On(st, Ev[l]) v == FirstFalse(r.cl) IN
             /\ st' = r.st
             /\ verdict' = IF verdict[1] = "ok" /\ v # "ok" THEN <<v, l>> ELSE verdict
        /\ l' = l + 1 /\ UNCHANGED tid
Fin  == /\ l = Len(Ev) + 1
        /\ PrintT(<<"VERDICT", tid, verdict[1], verdict[2], IF st.fragmented THEN 0 ELSE st.drift, st.nreq, Len(st.yielded)>>)
        /\ l' = l + 1 /\ UNCHANGED <<tid, st, verdict>>
Next == Step \/ Fin
Spec == Init /\ [][Next]_vars
====
