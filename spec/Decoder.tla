---- MODULE Decoder ----
(* The TLV cursor machine that processes a datagram:
     (1) puresnmp.util.reject_indefinite_length: a strictly forward walk over the TLV headers of the
         datagram (constructed values are descended into; like the decoder it reads a length octet that lies
         behind the enclosing value and follows lengths beyond it), raising on a length octet 0x80 and on
         more values than the datagram could hold;
     (2) x690's iteration over the members of a constructed value (types.Sequence.decode_raw driving
         util.get_value_slice / util.decode_length), transcribed as it is - including the indefinite
         form, whose end is searched with data.find(b"\x00\x00") and whose "next index" becomes
         -1 + 2 = 1 when no end marker exists.
   TLC runs both machines over every octet string of length <= MaxLen over an alphabet of header
   classes (tags, short lengths, 0x80, long-form prefixes, 0xFF) and checks PROGRESS: every step moves
   the cursor strictly forward or ends the walk, hence at most Len(data) steps and items.
   PinNoGuard removes step (1) (the pinned tree; fixed by f0e6b77 and its follow-up, which TLC asked for: the first
   version of the guard stopped at container boundaries and TLC produced 30 01 00 80 / the real hang 30 01 80 80): TLC then finds the datagrams on which
   x690 never terminates. *)
EXTENDS Naturals, Integers, Sequences, FiniteSets, TLC
CONSTANTS Alphabet, MaxLen, PinNoGuard
VARIABLES data, phase, pos, todo, steps, items, outcome
vars == <<data, phase, pos, todo, steps, items, outcome>>
Strings == UNION { [1..n -> Alphabet] : n \in 0..MaxLen }
Init == /\ data \in Strings /\ phase = (IF PinNoGuard THEN "decode" ELSE "guard") /\ pos = 1 /\ todo = << <<1, Len(data) + 1>> >>
        /\ steps = 0 /\ items = 0 /\ outcome = "running"
B(i) == data[i]
\* big-endian value of n octets from i (n <= 2 in this alphabet-sized model)
RECURSIVE BEv(_, _, _)
BEv(i, n, acc) == IF n = 0 THEN acc ELSE IF acc > 100000 THEN acc ELSE BEv(i + 1, n - 1, acc * 256 + B(i))   \* saturating: anything > Len(data) behaves alike
\* ---- (1) the guard: regions = stack of [start, end) still to walk; pos = cursor inside the top region
Guard ==
  /\ phase = "guard"
  /\ IF todo = <<>> THEN phase' = "decode" /\ pos' = 1 /\ todo' = << <<1, Len(data) + 1>> >> /\ UNCHANGED <<steps, items, outcome>>
     ELSE LET top == todo[Len(todo)] s == top[1] e == top[2] rest == SubSeq(todo, 1, Len(todo) - 1) IN
          \* while pos < end and pos + 1 < len(data)   (0-based)  ==  s < e /\ s + 1 <= Len(data)   (1-based)
          IF ~(s < e /\ s + 1 <= Len(data)) THEN todo' = rest /\ UNCHANGED <<phase, pos, steps, items, outcome>>
          ELSE IF steps >= Len(data) \div 2 + 1 THEN outcome' = "SnmpError(overlapping)" /\ phase' = "done" /\ UNCHANGED <<pos, todo, steps, items>>
          ELSE LET l0 == B(s + 1) IN
               IF l0 = 128 THEN outcome' = "SnmpError(indefinite)" /\ phase' = "done" /\ UNCHANGED <<pos, todo, steps, items>>
               ELSE LET n == IF l0 < 128 THEN 0 ELSE l0 - 128
                        start == s + 2 + n
                        avail == IF s + 1 + n <= Len(data) THEN n ELSE Len(data) - (s + 1)     \* int.from_bytes over a short slice
                        stop == IF l0 < 128 THEN start + l0 ELSE start + BEv(s + 2, avail, 0) IN
                    /\ steps' = steps + 1
                    /\ IF stop > Len(data) + 1 THEN todo' = rest                                     \* broken: leave it to the decoder
                       ELSE todo' = (IF (B(s) \div 32) % 2 = 1 THEN Append(Append(rest, <<stop, e>>), <<start, stop>>) ELSE Append(rest, <<stop, e>>))
                    /\ UNCHANGED <<phase, pos, items, outcome>>
  /\ UNCHANGED data
\* ---- (2) x690: members of the outermost value, then of each constructed member (depth-first)
Find00(from) == IF \E i \in from..(Len(data) - 1) : B(i) = 0 /\ B(i + 1) = 0
                THEN CHOOSE i \in from..(Len(data) - 1) : B(i) = 0 /\ B(i + 1) = 0 /\ \A j \in from..(i - 1) : ~(B(j) = 0 /\ B(j + 1) = 0)
                ELSE 0                                                                \* Python: -1 (0-based) = 0 (1-based)
Decode ==
  /\ phase = "decode"
  /\ IF todo = <<>> THEN phase' = "done" /\ outcome' = "decoded" /\ UNCHANGED <<pos, todo, steps, items>>
     ELSE LET top == todo[Len(todo)] s == top[1] e == top[2] rest == SubSeq(todo, 1, Len(todo) - 1) IN
          IF s >= e THEN todo' = rest /\ UNCHANGED <<phase, pos, steps, items, outcome>>
          ELSE IF s + 1 > Len(data) THEN outcome' = "IndexError" /\ phase' = "done" /\ UNCHANGED <<pos, todo, steps, items>>
          ELSE LET l0 == B(s + 1) IN
               IF l0 = 255 THEN outcome' = "NotImplementedError" /\ phase' = "done" /\ UNCHANGED <<pos, todo, steps, items>>
               ELSE LET indef == l0 = 128
                        n == IF l0 < 128 \/ indef THEN 0 ELSE l0 - 128
                        start == s + 2 + n
                        stop == IF indef THEN Find00(s)
                                ELSE IF l0 < 128 THEN start + l0
                                ELSE IF s + 2 + n > Len(data) + 1 THEN start ELSE start + BEv(s + 2, n, 0)
                        nxt == IF indef THEN stop + 2 ELSE stop IN
                    IF stop > Len(data) + 1 THEN outcome' = "X690Error(slice)" /\ phase' = "done" /\ UNCHANGED <<pos, todo, steps, items>>
                    ELSE /\ steps' = steps + 1 /\ items' = items + 1
                         /\ todo' = (IF (B(s) \div 32) % 2 = 1 /\ ~indef /\ start < stop THEN Append(Append(rest, <<nxt, e>>), <<start, stop>>) ELSE Append(rest, <<nxt, e>>))
                         /\ pos' = nxt
                         /\ outcome' = (IF nxt <= s THEN "NO-PROGRESS" ELSE outcome)
                         /\ phase' = (IF nxt <= s THEN "done" ELSE phase)
  /\ UNCHANGED data
Done == phase = "done" /\ UNCHANGED vars
Next == Guard \/ Decode \/ Done
Spec == Init /\ [][Next]_vars /\ WF_vars(Guard \/ Decode)
\* C20
Progress == outcome # "NO-PROGRESS"
BoundedWork == steps <= 2 * Len(data) + 2 /\ items <= Len(data)
Terminates == <>(phase = "done")
====
