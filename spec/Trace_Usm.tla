---- MODULE Trace_Usm ----
(* Trace specification for recorded SNMPv3 exchanges: C10 (requests verify under RFC 3414, authentic
   responses are accepted) and C11 (the scoped PDU only travels as the privacy plug-in's ciphertext).
   TLC decodes the request datagram itself with Ber.tla; the numeric MAC verdict (digest_ok) and the
   independently localised privacy key (expkey) are facts established by the reference agent. *)
EXTENDS Ber, TraceBase, AgentOpsErr
VARIABLES tid, l, verdict
vars == <<tid, l, verdict>>
Ev == Traces[tid].events

On(e) ==
  LET d == DecodeV3(e.req.raw, e.req.plain) i == e.intended IN
  IF e.req.verdict = "no-request" THEN << <<"no_request_sent", FALSE>> >>
  ELSE IF ~d.ok THEN << <<"malformed_request:" \o d.why, FALSE>> >>
  ELSE
  << <<"agent_rejected_request:" \o e.req.verdict, e.req.verdict = "ok">>,
     <<"flags_wrong", d.flags % 4 = i.flags>>,
     <<"reportable_missing", (d.flags \div 4) % 2 = 1>>,
     <<"secparams_engine", d.engine = i.engine>>,
     <<"secparams_boots", d.boots = e.req.boots>>,
     <<"secparams_time", d.time = e.req.time>>,
     <<"secparams_user", d.user = i.user>>,
     <<"digest_length", Len(d.auth) = IF i.flags % 2 = 1 THEN 12 ELSE 0>>,
     <<"digest_not_over_message_as_sent", e.req.digest_ok>>,
     <<"context_engine", d.ctxengine = i.ctxengine>>,
     <<"context_name", d.ctxname = i.ctxname>>,
     <<"pdu_type", d.pdu.ptype = i.ptype>>,
     <<"later_request_rejected", \A k \in DOMAIN e.verdicts : e.verdicts[k] = "ok">>,
     \* an authentic response is accepted and decoded - also when it is an error response (then: as the documented exception of its status)
     <<"authentic_response_rejected", IF Has(e, "agent_es") /\ e.agent_es # 0 THEN e.ret.kind = "exc" /\ e.ret.cls = ErrClass(e.agent_es) ELSE e.ret.kind = "result">>,
     <<"authentic_response_altered", (Has(e, "agent_es") /\ e.agent_es # 0) \/ e.ret.match>> >>
  \o (IF e.level # "authpriv" THEN <<>> ELSE
  << <<"plaintext_on_wire", ~e.secret_visible>>,
     <<"payload_not_plugin_ciphertext", d.cipher = e.enc.out /\ d.cipher # <<>>>>,
     <<"salt_mismatch", d.priv = e.enc.salt>>,
     <<"wrong_key", e.enc.key = e.expkey>>,
     <<"wrong_engine_arg", e.enc.engine = i.engine>>,
     <<"wrong_timing_args", d.boots = Canon(d.boots) /\ e.enc.boots = BE(d.boots, 1, Len(d.boots), 0) /\ e.enc.time = BE(d.time, 1, Len(d.time), 0)>>,
     \* a block plug-in pads: what the agent decrypts is the plug-in's input followed by padding
     <<"plugin_input_not_scoped_pdu", e.enc.data = e.req.plain \/ (Len(e.enc.data) <= Len(e.req.plain) /\ e.enc.data = SubSeq(e.req.plain, 1, Len(e.enc.data)))>>,
     <<"response_not_decrypted_with_same_key", e.dec.key = e.expkey>>,
     <<"response_not_decrypted_with_message_params",
       e.dec.salt = e.resp.salt /\ e.dec.data = e.resp.cipher /\ e.dec.boots = e.resp.boots /\ e.dec.time = e.resp.time /\ e.dec.engine = e.resp.engine>> >>)

Init == tid \in 1..Len(Traces) /\ l = 1 /\ verdict = <<"ok", 0>>
Step == /\ l <= Len(Ev)
        /\ LET v == FirstFalse(On(Ev[l])) IN verdict' = IF verdict[1] = "ok" /\ v # "ok" THEN <<v, l>> ELSE verdict
        /\ l' = l + 1 /\ UNCHANGED tid
Fin  == /\ l = Len(Ev) + 1 /\ PrintT(<<"VERDICT", tid, verdict[1], verdict[2]>>) /\ l' = l + 1 /\ UNCHANGED <<tid, verdict>>
Next == Step \/ Fin
Spec == Init /\ [][Next]_vars
====
