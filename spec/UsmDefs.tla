---- MODULE UsmDefs ----
(* The User-based Security Model as the client implements it (RFC 3414), symbolically:
     outgoing  V3MPM.encode -> UserSecurityModel.generate_request_message
               (apply_encryption, apply_authentication)                          C10, C11
     incoming  V3MPM.decode -> Message.decode -> process_incoming_message
               (user check, verify_authentication, update_engine_timing,
                decrypt_message, validate_usm_message, validate_security_level)   C09, C10
   against (a) a conformant RFC 3414 agent and (b) an on-path Dolev-Yao attacker who sees the
   authentic response, knows the keys of *another* user (Kx) but not Ku / Kp, and may rebuild
   any message from the parts it knows.  MACs and ciphertexts are uninterpreted terms:
   Mac(key, content) and Enc(key, salt, pdu); their arithmetic is decided by the reference
   agent's independent implementation and enters traces as observed facts.
   Pin* constants re-enable repaired behaviour of the pinned tree (self-tests). *)
EXTENDS Naturals, Sequences, FiniteSets, TLC

CONSTANTS PinAuthFlagTrusted,   \* no security-level check, Reports may be returned as data   (fixed: cdfcb1e)
          PinConfirmedOnlyGet,  \* reportable flag only for Get/GetNext                         (fixed: c3884d2)
          PinReserialise,       \* digest verified over a re-serialisation                      (fixed: 0bd9b8b)
          PinLazyErrorFirst,    \* the PDU's error-status raises (lazy decode) before the security-level check   (fixed: see F21)
          PinStatsInResponse,   \* usmStats OIDs are taken for error indicators in Responses too: the counters cannot be read   (fixed: see F23)
          Attack                \* TRUE: the attacker owns the channel; FALSE: only authentic responses are delivered

Levels == {"noauth", "auth", "authpriv"}
ReqTypes == {"Get", "GetNext", "GetBulk", "Set"}
Confirmed == {"Get", "GetNext", "GetBulk", "Set", "Inform"}             \* RFC 3411 section 2.8
HasAuth(l) == l # "noauth"
HasPriv(l) == l = "authpriv"

\* ------------------------------------------------------------------ outgoing
\* what the client puts on the wire for a request of type t at credentials level l after discovery `disco`
Request(l, t, disco, ctxEngine) ==
  [flags |-> [auth |-> HasAuth(l), priv |-> HasPriv(l),
              rep |-> IF PinConfirmedOnlyGet THEN t \in {"Get", "GetNext"} ELSE t \in Confirmed],
   sec |-> [engine |-> disco.engine, boots |-> disco.boots, time |-> disco.time, user |-> "u"],
   ctxEngine |-> IF ctxEngine = "" THEN disco.engine ELSE ctxEngine,
   data |-> IF HasPriv(l) THEN [form |-> "enc", key |-> <<"Kp", disco.engine>>, salt |-> "s1", pdu |-> t]
                          ELSE [form |-> "plain", key |-> <<>>, salt |-> "", pdu |-> t],
   mac |-> IF HasAuth(l) THEN [kind |-> "mac", key |-> <<"Ku", disco.engine>>, over |-> "as-sent"] ELSE [kind |-> "empty", key |-> <<>>, over |-> ""]]

\* RFC 3414 section 3.2 at the agent (engine E, boots B, time T): which usmStats counter the request bumps, or "ok"
AgentVerdict(l, req, E, B, T) ==
  IF req.sec.engine # E THEN "unknownEngineIDs"
  ELSE IF req.sec.user # "u" THEN "unknownUserNames"
  ELSE IF req.flags.auth # HasAuth(l) \/ req.flags.priv # HasPriv(l) THEN "unsupportedSecLevels"
  ELSE IF req.flags.auth /\ ~(req.mac.kind = "mac" /\ req.mac.key = <<"Ku", E>> /\ req.mac.over = "as-sent") THEN "wrongDigests"
  ELSE IF req.flags.auth /\ (req.sec.boots # B \/ req.sec.time > T + 150 \/ req.sec.time + 150 < T) THEN "notInTimeWindows"
  ELSE IF req.flags.priv /\ req.data.key # <<"Kp", E>> THEN "decryptionErrors"
  ELSE "ok"

\* ------------------------------------------------------------------ incoming
PduTypes == {"Response", "Report", "Other"}      \* Other: any other PDU type (Trap, Inform, a request): the caller never looks at the type of what comes back
Vbs == {"good", "evil", "usmStats"}
\* error-status of the PDU: the PDU is decoded lazily and its first access raises the exception of the status -
\* NoSuchOID for noSuchName, which walks take for "end of the subtree" (Caller below)
ErrStats == {"none", "noSuchName", "other"}
Pdus == [type : PduTypes, reqid : {1, 2}, vbs : Vbs, es : ErrStats]
GoodPdu == [type |-> "Response", reqid |-> 1, vbs |-> "good", es |-> "none"]
ErrCls(es) == IF es = "noSuchName" THEN "NoSuchOID" ELSE "ErrorResponse"
Payloads == [form : {"plain"}, key : {"-"}, pdu : Pdus] \cup [form : {"enc"}, key : {"Kp", "Kx"}, pdu : Pdus]
Content == [auth : BOOLEAN, priv : BOOLEAN, user : {"u", "x"}, len127 : BOOLEAN, data : Payloads]
Macs == [kind : {"empty", "zero", "short", "garbage"}] \cup [kind : {"mac"}, key : {"Ku", "Kx"}, over : Content]
Msgs == [c : Content, mac : Macs]

\* the authentic response of a conformant agent to a request at level l (same level, RFC 3412 7.1 step 3)
Authentic(l, len127) ==
  LET c == [auth |-> HasAuth(l), priv |-> HasPriv(l), user |-> "u", len127 |-> len127,
            data |-> IF HasPriv(l) THEN [form |-> "enc", key |-> "Kp", pdu |-> GoodPdu]
                                   ELSE [form |-> "plain", key |-> "-", pdu |-> GoodPdu]]
  IN [c |-> c, mac |-> IF HasAuth(l) THEN [kind |-> "mac", key |-> "Ku", over |-> c] ELSE [kind |-> "empty"]]

\* ... whose bindings may be the usmStats counters themselves, read as ordinary objects
AuthenticV(l, len127, v) ==
  LET a == Authentic(l, len127)
      c == [a.c EXCEPT !.data.pdu.vbs = v]
  IN [c |-> c, mac |-> IF HasAuth(l) THEN [kind |-> "mac", key |-> "Ku", over |-> c] ELSE [kind |-> "empty"]]

\* Dolev-Yao: having seen the authentic message a, the attacker can send m iff it never needs a MAC under Ku
\* or a ciphertext under Kp other than the ones a contains
CanSend(a, m) ==
  /\ (m.mac.kind = "mac" /\ m.mac.key = "Ku") => m.mac = a.mac
  /\ (m.c.data.form = "enc" /\ m.c.data.key = "Kp") => (a.c.data.form = "enc" /\ m.c.data = a.c.data)
  /\ (m.mac.kind = "mac" /\ m.mac.key = "Kx") => m.mac.over = m.c            \* with its own key it signs what it sends

MacValid(m) == m.mac.kind = "mac" /\ m.mac.key = "Ku" /\ m.mac.over = m.c
Exc(t)  == [kind |-> "exc", type |-> t, vbs |-> "-"]
\* process_incoming_message, step by step
Process(l, m) ==
  IF m.c.user # "u" THEN Exc("UnknownUser")
  ELSE IF m.c.auth /\ ~HasAuth(l) THEN Exc("UnsupportedSecurityLevel")
  ELSE IF m.c.auth /\ ~MacValid(m) THEN Exc("AuthenticationError")
  ELSE IF m.c.auth /\ PinReserialise /\ m.c.len127 THEN Exc("AuthenticationError")     \* 81 7f re-serialisation
  ELSE IF m.c.data.form = "enc" /\ ~m.c.priv THEN Exc("TypeError")                    \* Message.from_sequence on an OCTET STRING
  ELSE IF m.c.data.form = "plain" /\ m.c.priv THEN Exc("AttributeError")              \* a Sequence has no .value bytes
  ELSE IF m.c.data.form = "enc" /\ ~HasPriv(l) THEN Exc("SnmpError")                  \* decrypt without priv object
  ELSE IF m.c.data.form = "enc" /\ m.c.data.key # "Kp" THEN Exc("DecryptionError")
  ELSE LET p == m.c.data.pdu IN
       IF PinLazyErrorFirst
       THEN \* pinned order: validate_usm_message touches pdu.value first, the level check came last
            IF p.es # "none" THEN Exc(ErrCls(p.es))
            ELSE IF p.vbs = "usmStats" THEN Exc("SnmpError")
            ELSE IF ~PinAuthFlagTrusted /\ p.type = "Report" THEN Exc("SnmpError")
            ELSE IF ~PinAuthFlagTrusted /\ HasAuth(l) /\ ~m.c.auth THEN Exc("AuthenticationError")
            ELSE IF ~PinAuthFlagTrusted /\ HasPriv(l) /\ ~m.c.priv THEN Exc("UnsupportedSecurityLevel")
            ELSE IF p.reqid # 1 THEN Exc("InvalidResponseId")
            ELSE [kind |-> "result", type |-> p.type, vbs |-> p.vbs]
       ELSE \* Reports (the only thing accepted below the level of the credentials) always end as SnmpError, whatever they carry;
            \* everything else passes the level check before the PDU is looked at
            IF ~PinAuthFlagTrusted /\ p.type = "Report" THEN Exc("SnmpError")
            ELSE IF ~PinAuthFlagTrusted /\ HasAuth(l) /\ ~m.c.auth THEN Exc("AuthenticationError")
            ELSE IF ~PinAuthFlagTrusted /\ HasPriv(l) /\ ~m.c.priv THEN Exc("UnsupportedSecurityLevel")
            ELSE IF p.es # "none" THEN Exc(ErrCls(p.es))
            ELSE IF PinStatsInResponse /\ p.vbs = "usmStats" THEN Exc("SnmpError")   \* in a Response the counters are data like any other object
            ELSE IF p.reqid # 1 THEN Exc("InvalidResponseId")
            ELSE [kind |-> "result", type |-> p.type, vbs |-> p.vbs]

\* what the API operation makes of the outcome of one exchange: a walk (Client.multiwalk) takes NoSuchOID for the end of the
\* subtree and returns normally with the rows it has - a result that is not the authentic one
Apis == {"single", "walk"}
Caller(api, out) == IF api = "walk" /\ out.kind = "exc" /\ out.type = "NoSuchOID"
                    THEN [kind |-> "result", type |-> "Response", vbs |-> "truncated"] ELSE out

\* the messages the attacker can send, enumerated constructively (= { m \in Msgs : CanSend(a, m) })
AttackerMsgs(a) == { [c |-> c, mac |-> k] : c \in Content, k \in [kind : {"empty", "zero", "short", "garbage"}] } \cup
                   { [c |-> c, mac |-> [kind |-> "mac", key |-> "Kx", over |-> c]] : c \in Content } \cup
                   { [c |-> c, mac |-> a.mac] : c \in Content }
====
