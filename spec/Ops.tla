---- MODULE Ops ----
(* One API call of the client = Build (read the clock, make the PDU) -> Send ->
   AgentReply -> Decode (message layer: version / community / error-status) ->
   ValidateId -> Project (operation-specific post-processing), transcribed from
     src/puresnmp/api/raw.py  get multiget getnext multigetnext set multiset bulkget _send
     src/puresnmp/pdu.py      PDU.decode_raw (error branch)
     src/puresnmp_plugins/security/v1.py v2c.py (version / community test)
   with an explicit clock: Tick may fire between any two steps, sentId (the id
   inside the datagram) and checkedId (the id handed to validate_response_id)
   are separate variables.     Decides C04, C07, C08 on the design.
   PinSecondRead re-enables the pinned multiset (two clock reads, fixed by babe27c),
   PinErrIndex the pinned error-index handling (fixed by ced6fc6),
   PinGetNextEnd the pinned getnext at the end of the view (fixed by e9b1823),
   PinErrBeforeId the pinned order "error-status first, request-id second" (fixed by bf9f023). *)
EXTENDS AgentOps, TLC

CONSTANTS Insts,        \* instance OIDs the agent may hold
          ReqOids,      \* OIDs a caller may ask for
          MaxLen,       \* longest OID list
          Versions,     \* subset of {"v1","v2c","v3"}
          OpsSet, Perturbs, ErrStatuses, MaxTicks,
          PinSecondRead, PinErrIndex, PinGetNextEnd,
          PinV1ErrBeforeCommunity,   \* SNMPv1 only: the PDU was forced before the security model saw the message   (fixed: F24)
          PinErrBeforeId,   \* the lazily decoded PDU raised its error-status before validate_response_id ran   (fixed: F22)
          IdErrStatuses     \* error-statuses a reply with a perturbed request-id may carry ({0}: none)

Val(o) == <<"v", o>>
SetVal(o) == <<"s", o>>            \* the typed value a caller supplies for o
Confirmed(o) == <<"c", o>>         \* what an agent that normalises / clamps on write confirms instead

\* ---------------------------------------------------------------- documented exception classes
Exc(cls) == [kind |-> "exc", cls |-> cls, status |-> 0, oid |-> <<>>, data |-> <<>>]
ErrExc(st, oid) == [kind |-> "exc", cls |-> ErrClass(st), status |-> st, oid |-> oid, data |-> <<>>]
Result(d) == [kind |-> "result", cls |-> "", status |-> 0, oid |-> <<>>, data |-> d]

\* ---------------------------------------------------------------- client post-processing (implementation-shaped)
RECURSIVE DictOf(_, _)           \* dict(varbinds): later value wins, first position kept
DictOf(s, acc) == IF s = <<>> THEN acc
                  ELSE LET h == Head(s)
                           hit == { i \in DOMAIN acc : acc[i][1] = h[1] }
                       IN DictOf(Tail(s), IF hit = {} THEN Append(acc, h)
                                          ELSE [i \in DOMAIN acc |-> IF i \in hit THEN h ELSE acc[i]])
Vals(s) == [i \in DOMAIN s |-> s[i][2]]
Project(op, oids, nr, mr, vbs) ==
  CASE op = "multiget" -> IF Len(vbs) # Len(oids) THEN Exc("SnmpError") ELSE Result(Vals(vbs))
    [] op = "get" -> IF Len(vbs) # 1 THEN Exc("SnmpError")
                     ELSE IF vbs[1][2] = NOSUCH THEN ErrExc(2, oids[1]) ELSE Result(vbs[1][2])
    [] op \in {"multigetnext", "getnext"} ->
         IF Len(vbs) # Len(oids) THEN Exc("SnmpError")
         ELSE LET out == CutE(vbs) IN
              IF \E i \in DOMAIN out : ~OidLess(oids[i], out[i][1]) THEN Exc("FaultySNMPImplementation")
              ELSE IF op = "multigetnext" THEN Result(out)
              ELSE IF out = <<>> THEN (IF PinGetNextEnd THEN Exc("IndexError") ELSE ErrExc(2, oids[1]))
              ELSE IF out[1][2] = NOSUCH THEN ErrExc(2, oids[1]) ELSE Result(out[1])
    [] op \in {"multiset", "set"} ->
         LET d == DictOf(vbs, <<>>) IN
         IF Len(d) # Len(oids) THEN Exc("SnmpError")
         ELSE IF op = "multiset" THEN Result(d)
         ELSE IF d[1][1] = oids[1] THEN Result(d[1][2]) ELSE Exc("KeyError")
    [] op = "bulkget" ->
         LET n == IF nr < Len(oids) THEN nr ELSE Len(oids)
             r == Len(oids) - n IN
         IF Len(vbs) > n + mr * r THEN Exc("SnmpError")
         ELSE Result(<<DictOf(SubSeq(vbs, 1, IF nr < Len(vbs) THEN nr ELSE Len(vbs)), <<>>),
                       DictOf(CutE(SubSeq(vbs, nr + 1, Len(vbs))), <<>>)>>)

\* ---------------------------------------------------------------- state machine
VARIABLES op, oids, nr, mr, db, ver, perturb, errSt, errIx, errEcho, clock, ticks, pc, sentId, checkedId, resp, outcome
vars == <<op, oids, nr, mr, db, ver, perturb, errSt, errIx, errEcho, clock, ticks, pc, sentId, checkedId, resp, outcome>>

OidLists == UNION { [1..k -> ReqOids] : k \in 1..MaxLen }
Single(o) == o \in {"get", "getnext", "set"}
IdPerturbs == {"id_plus", "id_minus", "id_arb"}
ForeignPerturbs == {"wrong_comm", "wrong_ver"}        \* a message of another community / protocol version
Scripted == perturb = "err" \/ (perturb \in IdPerturbs \cup ForeignPerturbs /\ errSt # 0)      \* the reply carries the scripted error-status
NoDupSeq(s) == \A i, j \in DOMAIN s : i # j => s[i] # s[j]

Init == /\ op \in OpsSet /\ ver \in Versions /\ db \in SUBSET Insts /\ perturb \in Perturbs
        /\ oids \in OidLists
        /\ (Single(op) => Len(oids) = 1)
        /\ (op \in {"set", "multiset"} => NoDupSeq(oids))       \* the caller passes a mapping
        /\ (op = "bulkget" => ver # "v1")
        /\ nr \in (IF op = "bulkget" THEN 0..Len(oids) ELSE {0}) /\ mr \in (IF op = "bulkget" THEN 0..2 ELSE {0})
        /\ (perturb = "oversize" => op = "bulkget")
        /\ (perturb = "set_other" => op \in {"set", "multiset"})   \* the agent confirms other values than the ones supplied
        /\ errSt \in (IF perturb = "err" THEN ErrStatuses ELSE IF perturb \in IdPerturbs \cup ForeignPerturbs THEN IdErrStatuses ELSE {0})
        /\ errIx \in (IF perturb = "err" THEN 0..(Len(oids) + 1) ELSE {0})
        /\ errEcho \in (IF perturb = "err" THEN BOOLEAN ELSE {TRUE})
        /\ clock = 10 /\ ticks = 0 /\ pc = "build" /\ sentId = 0 /\ checkedId = 0
        /\ resp = [id |-> 0, es |-> 0, ei |-> 0, vbs |-> <<>>, comm |-> TRUE, ver |-> TRUE]
        /\ outcome = [kind |-> "pending", cls |-> "", status |-> 0, oid |-> <<>>, data |-> <<>>]

Tick == /\ ticks < MaxTicks /\ pc \notin {"done"} /\ clock' = clock + 1 /\ ticks' = ticks + 1
        /\ UNCHANGED <<op, oids, nr, mr, db, ver, perturb, errSt, errIx, errEcho, pc, sentId, checkedId, resp, outcome>>

TwoReads == PinSecondRead /\ op \in {"set", "multiset"}
Build == /\ pc = "build" /\ sentId' = clock                     \* get_request_id() -> PDU
         /\ pc' = (IF TwoReads THEN "read2" ELSE "send")
         /\ checkedId' = (IF TwoReads THEN checkedId ELSE clock)
         /\ UNCHANGED <<op, oids, nr, mr, db, ver, perturb, errSt, errIx, errEcho, clock, ticks, resp, outcome>>
Read2 == /\ pc = "read2" /\ checkedId' = clock /\ pc' = "send"   \* pinned: second get_request_id() -> _send
         /\ UNCHANGED <<op, oids, nr, mr, db, ver, perturb, errSt, errIx, errEcho, clock, ticks, sentId, resp, outcome>>

Extra == <<<<9, 9>>, Val(<<9, 9>>)>>
AgentReply ==
  /\ pc = "send" /\ pc' = "decode"
  /\ LET a == Answer(ver, op, oids, nr, mr, db, [o \in Insts |-> Val(o)], [i \in DOMAIN oids |-> SetVal(oids[i])])
         echo == [i \in DOMAIN oids |-> <<oids[i], NULLV>>]
         n == IF nr < Len(oids) THEN nr ELSE Len(oids)
         vbs == CASE perturb = "extra" -> Append(a.vbs, Extra)
                  [] perturb = "dropped" -> SubSeq(a.vbs, 1, Len(a.vbs) - 1)
                  [] perturb = "oversize" -> a.vbs \o [i \in 1..(n + mr * (Len(oids) - n) + 1 - Len(a.vbs)) |-> Extra]
                  [] Scripted -> IF errEcho THEN echo ELSE <<>>
                  [] perturb = "set_other" /\ a.es = 0 -> [i \in DOMAIN a.vbs |-> <<a.vbs[i][1], Confirmed(a.vbs[i][1])>>]
                  [] OTHER -> a.vbs
     IN resp' = [id |-> CASE perturb = "id_plus" -> sentId + 1 [] perturb = "id_minus" -> sentId - 1
                          [] perturb = "id_arb" -> 7 [] OTHER -> sentId,
                 es |-> IF Scripted THEN errSt ELSE a.es,
                 ei |-> IF Scripted THEN errIx ELSE a.ei,
                 vbs |-> vbs, comm |-> perturb # "wrong_comm", ver |-> perturb # "wrong_ver"]
  /\ UNCHANGED <<op, oids, nr, mr, db, ver, perturb, errSt, errIx, errEcho, clock, ticks, sentId, checkedId, outcome>>

IndexFails(r) == PinErrIndex /\ r.ei # 0 /\ r.ei \notin DOMAIN r.vbs     \* pinned: varbinds[error_index - 1]
Offending(r) == IF r.ei \in DOMAIN r.vbs THEN r.vbs[r.ei][1] ELSE <<>>
Decode ==
  /\ pc = "decode" /\ pc' = "done"
  /\ outcome' =
       IF PinV1ErrBeforeCommunity /\ ver = "v1" /\ resp.es # 0 THEN ErrExc(resp.es, Offending(resp))     \* pinned V1MPM.decode: pdu.value first
       ELSE IF ver # "v3" /\ ~resp.ver THEN Exc("SnmpError")
       ELSE IF ver # "v3" /\ ~resp.comm THEN Exc("SnmpError")
       ELSE IF PinErrBeforeId /\ resp.es # 0 THEN (IF IndexFails(resp) THEN Exc("IndexError") ELSE ErrExc(resp.es, Offending(resp)))
       ELSE IF resp.id # checkedId THEN Exc("InvalidResponseId")        \* Client._send: also for the id an ErrorResponse carries
       ELSE IF resp.es # 0 THEN (IF IndexFails(resp) THEN Exc("IndexError") ELSE ErrExc(resp.es, Offending(resp)))
       ELSE Project(op, oids, nr, mr, resp.vbs)
  /\ UNCHANGED <<op, oids, nr, mr, db, ver, perturb, errSt, errIx, errEcho, clock, ticks, sentId, checkedId, resp>>

Done == pc = "done" /\ UNCHANGED vars
Next == Tick \/ Build \/ Read2 \/ AgentReply \/ Decode \/ Done
Spec == Init /\ [][Next]_vars

\* ---------------------------------------------------------------- properties
Finished == pc = "done"
\* C07
Soundness    == outcome.kind = "result" => resp.id = sentId
Completeness == (Finished /\ perturb = "none") => outcome.cls # "InvalidResponseId"
Rejects      == (Finished /\ perturb \in IdPerturbs) => outcome.cls = "InvalidResponseId"
\* walks (Client.multiwalk) take NoSuchOID raised by one of their exchanges for the end of the subtree and return normally:
\* that exception must only ever come from the response to the request actually sent
WalkEndSound == (Finished /\ op \in {"multigetnext", "bulkget"} /\ outcome.kind = "exc" /\ outcome.cls = ErrClass(2)) => resp.id = sentId
\* ... refused as such: whatever error-status the foreign message carries is not reported as this request's error
CommunityVersionRefused == (Finished /\ ver # "v3" /\ perturb \in ForeignPerturbs) => (outcome.kind = "exc" /\ outcome.cls = "SnmpError" /\ outcome.status = 0)
\* C08
ErrorSurfaces ==
  (Finished /\ resp.es # 0 /\ perturb \notin {"wrong_comm", "wrong_ver"} \cup IdPerturbs) =>
     /\ outcome.kind = "exc" /\ outcome.cls = ErrClass(resp.es) /\ outcome.status = resp.es
     /\ (resp.ei \in DOMAIN resp.vbs => outcome.oid = resp.vbs[resp.ei][1])
\* C04 (property-level expectation, written without the client's helper operators)
Succ(o) == IF HasNext(db, o) THEN <<NextOid(db, o), Val(NextOid(db, o))>> ELSE <<>>
Expected ==
  CASE op = "get" -> IF oids[1] \in db THEN Result(Val(oids[1])) ELSE ErrExc(2, oids[1])
    [] op = "multiget" ->
         IF ver = "v1" /\ \E i \in DOMAIN oids : oids[i] \notin db
         THEN ErrExc(2, oids[FirstBad(oids, LAMBDA o : o \notin db)])
         ELSE Result([i \in DOMAIN oids |-> IF oids[i] \in db THEN Val(oids[i]) ELSE NOSUCH])
    [] op = "getnext" -> IF HasNext(db, oids[1]) THEN Result(Succ(oids[1])) ELSE ErrExc(2, oids[1])
    [] op = "multigetnext" ->
         LET bad == FirstBad(oids, LAMBDA o : ~HasNext(db, o)) IN
         IF ver = "v1" /\ bad # 0 THEN ErrExc(2, oids[bad])
         ELSE Result([i \in 1..(IF bad = 0 THEN Len(oids) ELSE bad - 1) |-> Succ(oids[i])])
    [] op = "set" -> Result(SetVal(oids[1]))
    [] op = "multiset" -> Result([i \in DOMAIN oids |-> <<oids[i], SetVal(oids[i])>>])
    [] op = "bulkget" -> outcome            \* judged by BulkFaithful below
ExactAnswers == (Finished /\ perturb = "none" /\ op # "bulkget") => outcome = Expected
CountMismatchRefused ==
  (Finished /\ perturb \in {"extra", "dropped"} /\ op # "bulkget" /\ resp.es = 0) => (outcome.kind = "exc" /\ outcome.cls = "SnmpError")
\* a set returns what the agent confirmed - not what the caller supplied
SetReturnsConfirmed ==
  (Finished /\ perturb = "set_other" /\ resp.es = 0) =>
     outcome = IF op = "set" THEN Result(Confirmed(oids[1])) ELSE Result([i \in DOMAIN oids |-> <<oids[i], Confirmed(oids[i])>>])
OversizeRefused == (Finished /\ perturb = "oversize") => (outcome.kind = "exc" /\ outcome.cls = "SnmpError")
\* bulkget: nothing invented, reordered or moved between scalars and listing.  scalars / listing are
\* documented as mappings keyed by OID, so bindings with the same OID collapse into one entry (weaker
\* reading: which of the agent's values for that OID survives is not judged).
BulkFaithful ==
  (Finished /\ op = "bulkget" /\ perturb = "none") =>
     /\ outcome.kind = "result"
     /\ LET n == IF nr < Len(oids) THEN nr ELSE Len(oids)
            sc == SubSeq(resp.vbs, 1, n) rp == SubSeq(resp.vbs, n + 1, Len(resp.vbs)) IN
        /\ FaithfulMapping(outcome.data[1], sc)
        /\ FaithfulMapping(outcome.data[2], CutE(rp))
NoNonSnmpException == outcome.kind = "exc" => outcome.cls \notin {"IndexError", "KeyError"}
====
