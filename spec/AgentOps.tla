---- MODULE AgentOps ----
(* The conformant agent for single request/response operations (RFC 3416 4.2.1 - 4.2.5,
   RFC 1157 4.1.2 - 4.1.5 for version 1), parametrised by the function V giving the value an instance holds and the
   sequence SV of the values the SET bindings supply.  Shared by Ops.tla (model checking; V = opaque token)
   and Trace_Ops.tla (trace validation; V = typed value recorded in the scenario). *)
EXTENDS Oid, AgentOpsErr
NOSUCH == <<"nosuch">>
EOMVV  == <<"eomv">>
NULLV  == <<"null">>
GetB(db, o, V)  == IF o \in db THEN <<o, V[o]>> ELSE <<o, NOSUCH>>
NextB(db, o, V) == IF HasNext(db, o) THEN <<NextOid(db, o), V[NextOid(db, o)]>> ELSE <<o, EOMVV>>
RECURSIVE BulkRows(_, _, _, _)
BulkRows(db, cur, m, V) == IF m = 0 \/ cur = <<>> THEN <<>>
                        ELSE LET row == [i \in DOMAIN cur |-> NextB(db, cur[i], V)] IN
                             row \o BulkRows(db, [i \in DOMAIN cur |-> row[i][1]], m - 1, V)
FirstBad(s, P(_)) == IF \E i \in DOMAIN s : P(s[i]) THEN CHOOSE i \in DOMAIN s : P(s[i]) /\ \A j \in 1..(i - 1) : ~P(s[j]) ELSE 0
\* conformant answer: [es, ei, vbs]
Answer(ver, op, oids, nr, mr, db, V, SV) ==
  LET echo == [i \in DOMAIN oids |-> <<oids[i], NULLV>>] IN
  CASE op \in {"get", "multiget"} ->
         LET bad == FirstBad(oids, LAMBDA o : o \notin db) IN
         IF ver = "v1" /\ bad # 0 THEN [es |-> 2, ei |-> bad, vbs |-> echo]
         ELSE [es |-> 0, ei |-> 0, vbs |-> [i \in DOMAIN oids |-> GetB(db, oids[i], V)]]
    [] op \in {"getnext", "multigetnext"} ->
         LET bad == FirstBad(oids, LAMBDA o : ~HasNext(db, o)) IN
         IF ver = "v1" /\ bad # 0 THEN [es |-> 2, ei |-> bad, vbs |-> echo]
         ELSE [es |-> 0, ei |-> 0, vbs |-> [i \in DOMAIN oids |-> NextB(db, oids[i], V)]]
    [] op \in {"set", "multiset"} ->
         [es |-> 0, ei |-> 0, vbs |-> [i \in DOMAIN oids |-> <<oids[i], SV[i]>>]]
    [] op = "bulkget" ->
         LET n == IF nr < Len(oids) THEN nr ELSE Len(oids) IN
         [es |-> 0, ei |-> 0,
          vbs |-> [i \in 1..n |-> NextB(db, oids[i], V)] \o BulkRows(db, SubSeq(oids, n + 1, Len(oids)), mr, V)]

RECURSIVE CutE(_)
CutE(s) == IF s = <<>> \/ Head(s)[2] = EOMVV THEN <<>> ELSE <<Head(s)>> \o CutE(Tail(s))
\* a result mapping `res` faithfully reports the agent's bindings `src`: same keys, only the agent's
\* pairs, one entry per OID, in order of first occurrence
FirstIdx(src, k) == CHOOSE i \in DOMAIN src : src[i][1] = k /\ \A j \in 1..(i - 1) : src[j][1] # k
FaithfulMapping(res, src) ==
  /\ { res[i][1] : i \in DOMAIN res } = { src[i][1] : i \in DOMAIN src }
  /\ \A i \in DOMAIN res : res[i] \in ToSet(src)
  /\ \A i, j \in DOMAIN res : i < j => (res[i][1] # res[j][1] /\ FirstIdx(src, res[i][1]) < FirstIdx(src, res[j][1]))
====
