"""C15 - the pythonic wrapper returns only built-in Python types, equal to the raw results.  DESIGN.md 6 / C15."""
import json, random
import drv_py
from absmap import VALUE_TYPES

LEVEL = "exploration"
# one instance of every value type under .1 (a walkable subtree with the NULL-typed object in the middle), colliding encodings under .2
# (OID 0.0 / Counter64 0: same content octet 00; OID 1.3 / Counter64 43: same content octet 2b), a table under .7.2
DB = [[[1, 1, 0], ["OctetString", 11]], [[1, 2, 0], ["ObjectIdentifier", 12]], [[1, 3, 0], ["TimeTicks", 13]], [[1, 4, 0], ["Null", 0]],
      [[1, 5, 0], ["Integer", 15]], [[1, 6, 0], ["IpAddress", 16]], [[1, 7, 0], ["Counter", 17]], [[1, 8, 0], ["Gauge", 18]],
      [[1, 9, 0], ["Opaque", 19]], [[1, 10, 0], ["Counter64", 20]],
      [[2, 1, 0], ["Counter64", -(1 << 40)]], [[2, 3, 0], ["Counter64", 43 - (1 << 40)]],
      [[7, 2, 1, 1, 1], ["Integer", 1]], [[7, 2, 1, 1, 2], ["Integer", 2]], [[7, 2, 1, 2, 1], ["OctetString", 3]], [[7, 2, 1, 2, 2], ["TimeTicks", 4]],
      [[7, 2, 1, 3, 1], ["Counter64", -(1 << 40)]], [[7, 2, 1, 3, 2], ["IpAddress", 5]],
      # a sparse table under .8.2: later rows have columns the first row lacks, one row has a single cell, multi-component indexes
      [[8, 2, 1, 1, 1], ["Integer", 31]], [[8, 2, 1, 2, 1], ["OctetString", 32]], [[8, 2, 1, 2, 2], ["OctetString", 33]], [[8, 2, 1, 3, 2], ["TimeTicks", 34]],
      [[8, 2, 1, 4, 3], ["IpAddress", 35]], [[8, 2, 1, 5, 4, 7], ["ObjectIdentifier", 36]], [[8, 2, 1, 6, 2], ["Counter64", 37]], [[8, 2, 1, 7, 4, 7], ["Null", 0]],
      [[8, 2, 1, 8, 3], ["Opaque", 38]],
      # Opaque / OCTET STRING values whose content is itself a complete well-formed BER value (they stay bytes)
      [[9, 1, 0], ["OpaqueRaw", [4, 7] + list(b"wrapped")]], [[9, 2, 0], ["OpaqueRaw", [2, 1, 5]]], [[9, 3, 0], ["OpaqueRaw", [0x46, 1, 9]]],
      [[9, 4, 0], ["OpaqueRaw", [0x9f, 0x78, 4, 0x42, 0xf6, 0, 0]]], [[9, 5, 0], ["OctetStringRaw", [0x30, 3, 2, 1, 5]]], [[9, 6, 0], ["OpaqueRaw", [0x30, 3, 2, 1, 5]]],
      [[9, 7, 0], ["OpaqueRaw", [5, 0]]], [[9, 8, 0], ["OpaqueRaw", []]]]


def calls(rnd):
    inst = [o for o, _ in DB]
    C = []
    for o in inst[:12] + [o for o in inst if o[0] == 9]:
        C.append(dict(op="get", oids=[o]))
    C.append(dict(op="walk", oids=[[9]]))
    # walks rooted at an OID that is itself an instance (the raw walk yields nothing), incl. the last instance of the view
    C.append(dict(op="walk", oids=[[1, 1, 0]]))
    C.append(dict(op="walk", oids=[[9, 8, 0]]))
    C.append(dict(op="multiwalk", oids=[[1, 5, 0], [2]]))
    C.append(dict(op="bulkwalk", oids=[[1, 3, 0]], bulk=3))
    # scalars at / behind the end of the view (endOfMibView among the non-repeaters)
    C.append(dict(op="bulkget", oids=[[99], [1]], nr=1, bulk=2))
    C.append(dict(op="bulkget", oids=[[9, 8, 0], [99, 1], [2]], nr=2, bulk=2))
    C.append(dict(op="getnext", oids=[[9, 7]]))
    C.append(dict(op="multiget", oids=[o for o in inst if o[0] == 9]))
    C.append(dict(op="bulkwalk", oids=[[9], [8]], bulk=4))
    C.append(dict(op="table", oids=[[8, 2, 1]]))
    for b in (1, 2, 7):
        C.append(dict(op="bulktable", oids=[[8, 2]], bulk=b))
    # several repeating OIDs: up to max-repetitions bindings PER repeater
    C.append(dict(op="bulkget", oids=[[1], [7]], nr=0, bulk=3))
    C.append(dict(op="bulkget", oids=[[1, 1], [1], [2], [8]], nr=1, bulk=2))
    C.append(dict(op="bulkget", oids=[[1], [9], [8, 2, 1, 2]], nr=0, bulk=5))
    C.append(dict(op="getnext", oids=[[1]]))
    for o in rnd.sample(inst, 5):
        C.append(dict(op="getnext", oids=[o[:-1]]))
    C.append(dict(op="multiget", oids=inst[:12]))
    C.append(dict(op="multiget", oids=[inst[0], [9, 9, 0]]))
    for t in VALUE_TYPES:
        C.append(dict(op="set", oids=[[5, 1, 0]], vals=[[t, rnd.randint(1, 90)]]))
    C.append(dict(op="multiset", oids=[[5, 1, 0], [5, 2, 0], [5, 3, 0]], vals=[[rnd.choice(VALUE_TYPES), rnd.randint(1, 90)] for _ in range(3)]))
    C.append(dict(op="walk", oids=[[1]]))
    C.append(dict(op="walk", oids=[[2]]))
    C.append(dict(op="multiwalk", oids=[[1], [2]]))
    C.append(dict(op="multiwalk", oids=[[7], [1]]))
    for b in (1, 2, 5, 20):
        C.append(dict(op="bulkwalk", oids=[[1], [2]], bulk=b))
        C.append(dict(op="bulkwalk", oids=[[1]], bulk=b))
    C.append(dict(op="bulkget", oids=[[1, 1], [1, 2], [1]], nr=2, bulk=3))
    C.append(dict(op="bulkget", oids=[[1, 1], [99]], nr=1, bulk=3))          # scalars, and a listing that is empty (beyond the end of the view)
    C.append(dict(op="bulkget", oids=[[1, 1], [1, 3]], nr=2, bulk=3))        # scalars only
    C.append(dict(op="bulkget", oids=[[1]], nr=0, bulk=12))
    C.append(dict(op="table", oids=[[7, 2, 1]]))
    for b in (1, 3, 10):
        C.append(dict(op="bulktable", oids=[[7, 2]], bulk=b))
    return C


def run(ctx):
    q = ctx.quick
    rnd = random.Random(ctx.seed)
    # OID values 0.0 and 1.3 whose content octets equal those of Counter64 0 and 43
    db = [list(x) for x in DB]
    S = []
    for proto in (["v2c", "v1", "v3a_md5"] if q else ["v2c", "v1", "v3n", "v3a_md5", "v3a_sha", "v3p_md5", "v3p_sha"]):
        for k in range(3 if q else 12):
            cs = calls(rnd)
            if proto == "v1":
                cs = [c for c in cs if not c["op"].startswith("bulk")]
            rnd.shuffle(cs)                      # the order matters when the wrapper keeps state between calls
            S.append(dict(db=db, proto=proto, calls=cs))
    # the OID-typed twins of the Counter64 values
    for sc in S:
        sc["db"] = sc["db"] + [[[2, 2, 0], ["ObjectIdentifierRaw", [0, 0]]], [[2, 4, 0], ["ObjectIdentifierRaw", [1, 3]]]]
    T = drv_py.run_all(S)
    E = [dict(scenario=dict(t["scenario"], call=i), events=[e]) for t in T for i, e in enumerate(t["events"])]
    ctx.evaluations += len(E)
    verdicts = ctx.validate("Trace_Pythonic", E, chunk=4000)
    ctx.judge(E, verdicts, signature=lambda tr, v: dict(op=tr["events"][0]["op"]), nontrivial=lambda tr, v: tr["events"][0]["got"] + tr["events"][0]["op"] if not tr["events"][0]["raw_failed"] else None)
    ctx.rule = ("every wrapper operation (get, getnext, multiget, set, multiset, walk, multiwalk, bulkwalk, bulkget, table, bulktable) next to the raw operation for "
                "the same exchange, on a database with every SNMP value type (a NULL-typed object in the middle of a subtree, OID / Counter64 values with "
                "identical content octets, an empty bulk listing, scalars behind the end of the view, walks rooted at an instance, bulkget with several repeaters, a table with mixed types, a sparse table whose later rows have "
                "columns the first row lacks, Opaque / OCTET STRING values whose content is itself well-formed BER), in seeded call orders on one wrapper, over v1/v2c/v3; "
                "distinct = distinct (operation, result)")
    ctx.assumptions = ["PyVarBind (a tuple subclass) and BulkResult (the documented container) are containers, not leaves",
                       "the reference conversion is the harness's own table by class name; it never calls .pythonize()"]


def replay(ctx, path):
    d = json.load(open(path))
    T = [d["trace"]]
    ctx.judge(T, ctx.validate("Trace_Pythonic", T), signature=lambda tr, v: {})
