"""C04 - GET/GETNEXT/SET/GETBULK results are exactly the agent's answers, in order.  DESIGN.md 6 / C04."""
import random
from props import opscommon as O

LEVEL = "model_checking"


def run(ctx):
    q = ctx.quick
    ctx.model_check("MC_Ops", "data", constants=dict(O.BASE, MaxLen=2 if q else 3), invariants=O.INV_C04, must_cover=["Build", "AgentReply", "Decode"])
    if not q:
        ctx.model_check("MC_Ops", "selftest_getnext_end", constants=dict(O.BASE, PinGetNextEnd=True), invariants=O.INV_C04,
                        expect=["ExactAnswers", "NoNonSnmpException"])
    rnd = random.Random(ctx.seed)
    S = []
    k = 0
    for op in O.OPS:
        for oids in O.oid_lists(op, 2 if q else 3):
            for db in O.dbs(k):
                k += 1
                for proto in (["v1", "v2c", rnd.choice(O.PROTOS[2:])] if not q else rnd.sample(["v1", "v2c", rnd.choice(O.PROTOS[2:])], 2)):
                    if op == "bulkget" and proto == "v1":
                        proto = "v2c"
                    perts = ["none"] + ([rnd.choice(["extra", "dropped"] + (["oversize"] if op == "bulkget" else []))] if rnd.random() < 0.5 else [])
                    if op in ("set", "multiset"):
                        perts.append("set_other")
                    for pert in perts:
                        sc = dict(op=op, oids=oids, db=db, proto=proto, perturb=pert, nr=0, mr=0)
                        if op == "bulkget":
                            sc["nr"], sc["mr"] = rnd.randint(0, len(oids)), rnd.randint(0, 2 if q else 3)
                        if op in ("set", "multiset"):
                            sc["setvals"] = O.setvals(rnd, oids)
                        S.append(sc)
                        if op in ("bulkget", "multiget") and pert == "none" and rnd.random() < 0.3:
                            S.append(dict(sc, again=True))        # the same list objects handed to a second call
    # SET of zero-length strings, and of value objects the client itself handed out earlier
    for proto in O.PROTOS:
        for tag in ("OctetString", "Opaque"):
            S.append(dict(op="set", oids=[[5, 1]], db=O.dbs(1)[-1], proto=proto, perturb="none", nr=0, mr=0, setvals=[[tag, -1]]))
            S.append(dict(op="multiset", oids=[[5, 1], [5, 2]], db=O.dbs(1)[-1], proto=proto, perturb="none", nr=0, mr=0, setvals=[[tag, -1], ["Integer", 4]]))
        for k in range(3):
            S.append(dict(op="set", oids=[[5, 1]], db=O.dbs(k)[-1], proto=proto, perturb="none", nr=0, mr=0, setvals=[["Integer", 1]], fromget=True))
    # objects the library knows by name (the usmStats counters, 1.3.6.1.6.3.15.1.1.k.0) are ordinary MIB objects for every protocol level
    from absmap import VALUE_TYPES as VT
    sdb = [[[1, k2, 0], [VT[k2 % len(VT)], 40 + k2]] for k2 in range(1, 7)]
    for proto in O.PROTOS:
        for op, oids in (("get", [[1, 5, 0]]), ("get", [[1, 1, 0]]), ("multiget", [[1, 1, 0], [1, 5, 0], [1, 4, 0]]), ("getnext", [[1, 3, 0]]), ("getnext", [[1]]),
                         ("multigetnext", [[1], [1, 3, 0]]), ("bulkget", [[1, 2, 0], [1]]), ("set", [[1, 6, 0]]), ("multiset", [[1, 2, 0], [1, 3, 0]])):
            if op == "bulkget" and proto == "v1":
                continue
            sc = dict(op=op, oids=oids, db=sdb, proto=proto, perturb="none", nr=1 if op == "bulkget" else 0, mr=3 if op == "bulkget" else 0, pfx="usm")
            if op in ("set", "multiset"):
                sc["setvals"] = O.setvals(rnd, oids)
            S.append(sc)
    ctx.rule = ("every operation x every OID list of length 1..%d over {1, 1.1, 1.2, 2.1, 9} (duplicates, absent objects, beyond the end of the view) "
                "x every database over {1.1, 1.2, 2.1} with rotating value types x v1/v2c/v3 levels x reply perturbation {none, extra binding, "
                "dropped binding, oversize bulk, SET confirmed with other values than supplied}%s; SET of zero-length strings and of value objects read earlier; repeated calls with the same list objects; every operation on the usmStats counters as ordinary objects over all levels; non-trivial = distinct scenario whose trace was accepted") % (2 if q else 3, " (sampled in quick)" if q else "")
    O.drive_and_judge(ctx, S)
    ctx.assumptions = ["BulkResult.scalars/listing are mappings: bindings with the same OID collapse (which value survives is not judged)",
                       "multigetnext may omit what follows the first endOfMibView; getnext at the end of the view must raise an SnmpError"]


def replay(ctx, path):
    import json
    O.drive_and_judge(ctx, [json.load(open(path))["trace"]["scenario"]])
