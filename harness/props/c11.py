"""C11 - USM privacy: the scoped PDU only ever travels as the plug-in's ciphertext.  DESIGN.md 6 / C11."""
import random
from props import usmcommon as U
import drv_usm

LEVEL = "model_checking"


def run(ctx):
    q = ctx.quick
    ctx.model_check("Usm", "privacy", constants=U.PINS, invariants=U.INV_C11, must_cover=["Encode", "Decode"])
    rnd = random.Random(ctx.seed)
    S = []
    pws = [b"privsecret", b"p", b"0123456789abcdef", b"x" * 64, b"y" * 300, b"0x" + b"3f9a" * 8, b"0X" + b"AB" * 20, b"0x", b"0xcafe",
           b"md5:secret", b"sha1:secret", b"$1$salt$hash", b"\x00binary\xff", b" leading and trailing "] + [bytes(rnd.randrange(33, 127) for _ in range(rnd.randint(1, 80))) for _ in range(6 if q else 40)]
    for h in ("md5", "sha1"):
        for pw in pws:
            for op in (drv_usm.OPS if not q else rnd.sample(drv_usm.OPS, 4) + ["set"]):
                eng = bytes([0x80, 0, 0x1f, 0x88, 4]) + bytes(rnd.randrange(256) for _ in range(rnd.choice([0, 7, 12, 27])))
                S.append(dict(level="authpriv", hash=h, privmethod=rnd.choice(["verifstream", "verifblock"]), authpw=b"auth-" + pw[:20], privpw=pw, op=op, pad=rnd.choice([0, 1, 100, 127, 128, 255, 256, 1000]), engine=eng,
                              ctxname=rnd.choice([b"", b"ctx"]), ctxengine=rnd.choice([b"", b"", b"\x80\x00\x00\x01\x02otherengine"]),
                              secret=bytes(rnd.randrange(256) for _ in range(rnd.choice([4, 8, 16, 200]))),
                              boots=rnd.choice([1, 7, 300, 2 ** 31 - 1]), now=rnd.choice([3, 50000, 2 ** 31 - 200])))
    # responses stamped behind what the client already knows about the engine's clock (inside the window)
    for h in ("md5", "sha1"):
        for lag in (1, 5, 149):
            for op in ("get", "walk", "set", "bulkget"):
                S.append(dict(level="authpriv", hash=h, privmethod=rnd.choice(["verifstream", "verifblock"]), authpw=b"authpw-lag", privpw=b"privpw-lag", op=op, pad=9, resp_lag=lag))
    # the discovery Report's contextEngineID is not the engine id (empty, or a context behind a proxy): keys are localised to msgAuthoritativeEngineID
    for h in ("md5", "sha1"):
        for rc in (b"", b"\x80\x00\x00\x01\x02behindproxy"):
            for op in ("get", "set", "walk"):
                S.append(dict(level="authpriv", hash=h, privmethod=rnd.choice(["verifstream", "verifblock"]), authpw=b"authpw-rc", privpw=b"privpw-rc", op=op, pad=3, report_ctx=rc))
    # an earlier request was answered with a (unauthenticated) usmStats Report: no later request may fall back to a lower level
    for h in ("md5", "sha1"):
        for rep in ("unsupportedSecLevels", "decryptionErrors", "wrongDigests", "unknownUserNames", "notInTimeWindows"):
            for op in ("get", "set"):
                S.append(dict(level="authpriv", hash=h, privmethod=rnd.choice(["verifstream", "verifblock"]), authpw=b"authpw-pr", privpw=b"privpw-pr", op=op, pad=3, prior_report=rep))
    # encrypted error responses round-trip like any other response (as the documented exception); a second client for the same engine after its restart
    for h in ("md5", "sha1"):
        for es in (2, 5, 17, 19):
            for op in ("get", "set", "walk"):
                if op == "walk" and es == 2:
                    continue            # noSuchName ends a walk by design
                S.append(dict(level="authpriv", hash=h, privmethod=rnd.choice(["verifstream", "verifblock"]), authpw=b"authpw-es", privpw=b"privpw-es", op=op, pad=3, agent_es=es))
        for op in ("get", "set"):
            S.append(dict(level="authpriv", hash=h, privmethod=rnd.choice(["verifstream", "verifblock"]), authpw=b"authpw-2c", privpw=b"privpw-2c", op=op, pad=3, second_client=True))
    # histories on one process: same privacy password under MD5 and then SHA-1 localisation (and the reverse), same engine
    for a, b in (("md5", "sha1"), ("sha1", "md5")):
        for op in ("get", "set"):
            S.append(dict(level="authpriv", hash=a, authpw=b"authpw-shared", privpw=b"shared-priv-password", op=op, pad=5))
            S.append(dict(level="authpriv", hash=b, authpw=b"authpw-shared", privpw=b"shared-priv-password", op=op, pad=5))
    ctx.rule = ("authPriv exchanges through two recording plug-ins supplied via the puresnmp_plugins namespace (a keyed stream transform, and a block transform that pads to 8 octets so that decrypt returns trailing padding): privacy "
                "pass-phrases x MD5/SHA-1 localisation x engine ids x operations x context names / foreign context engine ids x payload sizes x SET secrets; "
                "histories (an earlier request answered with a usmStats Report; the same pass-phrase under both localisations); discovery Reports whose contextEngineID is empty / foreign; responses stamped 1..149 s behind the client's notion of the engine time; the agent derives the privacy key independently; distinct = distinct request datagram")
    U.drive(ctx, S)
    ctx.assumptions = ["the privacy plug-in is the harness's stream transform; DES/AES plug-ins live in another package and are not exercised",
                       "`plaintext on the wire` = the SET value (>= 4 octets) or the scoped PDU body occurs verbatim in any datagram of the exchange"]


def replay(ctx, path):
    from props.c10 import replay as r
    r(ctx, path)
