"""C18 - temporary reconfiguration applies inside its block and is undone exactly.  DESIGN.md 6 / C18."""
import itertools, json, random
import drv_config

LEVEL = "model_checking"
TO, RE, CR = [6, 1], [10, 2], ["v2c:a", "v2c:b", "v1:a", "v3:u"]


def overrides(rnd=None):
    out = []
    for t in TO + [None]:
        for r in RE + [None]:
            for c in CR + [None]:
                kv = {}
                if t is not None:
                    kv["timeout"] = t
                if r is not None:
                    kv["retries"] = r
                if c is not None:
                    kv["creds"] = c
                if kv:
                    out.append(kv)
    return out


def gen_tree(rnd, depth, maxdepth, OV):
    items = []
    for _ in range(rnd.randint(1, 3)):
        k = rnd.random()
        if k < 0.30 and depth < maxdepth:
            items.append(("block", rnd.choice(OV), gen_tree(rnd, depth + 1, maxdepth, OV) + [("req",)], rnd.choice(["normal", "exc"])))
            items.append(("req",))
        elif k < 0.5:
            items.append(("cfg", rnd.choice(OV)))
            items.append(("req",))
        elif k < 0.6:
            items.append(("cfgx", rnd.choice(OV + [{}])))
            items.append(("req",))
        elif k < 0.68:
            items.append(("blockx", rnd.choice(OV + [{}])))
            items.append(("req",))
        else:
            items.append(("req",))
    return items


def sig(tr, v):
    return dict(clause_family=v[0].split(":")[0])


def run(ctx):
    q = ctx.quick
    ctx.model_check("Config", "histories", constants=dict(MaxDepth=3 if q else 4, MaxLen=4 if q else 6, PinIsInstance=False, PinRestoreCfgOnly=False),
                    invariants=["VersionFollowsCredentials", "RequestObservesCurrentSettings", "StackDiscipline"], constraints=["Bound"],
                    must_cover=["Configure", "Enter", "Exit", "Request", "ConfigureUnknown"], timeout=3000)
    if not q:
        ctx.model_check("Config", "selftest_isinstance", constants=dict(MaxDepth=2, MaxLen=4, PinIsInstance=True, PinRestoreCfgOnly=False),
                        invariants=["VersionFollowsCredentials"], constraints=["Bound"], expect=["VersionFollowsCredentials"])
        ctx.model_check("Config", "selftest_restore", constants=dict(MaxDepth=2, MaxLen=4, PinIsInstance=False, PinRestoreCfgOnly=True),
                        invariants=["VersionFollowsCredentials"], constraints=["Bound"], expect=["VersionFollowsCredentials"])
    rnd = random.Random(ctx.seed)
    OV = overrides()
    trees = []
    # exhaustive small shapes: every override as a block / a configure / a configure inside a block / two nested blocks, both exits
    for kv in OV:
        for how in ("normal", "exc"):
            trees.append([("req",), ("block", kv, [("req",)], how), ("req",)])
        trees.append([("cfg", kv), ("req",), ("cfgx", kv), ("req",), ("blockx", kv), ("req",)])
    cred_ov = [kv for kv in OV if list(kv) == ["creds"]] + [{"timeout": 1}, {"retries": 2}]
    for a, b in itertools.product(cred_ov, repeat=2):
        for how in ("normal", "exc"):
            trees.append([("block", a, [("req",), ("cfg", b), ("req",)], how), ("req",)])
            trees.append([("cfg", a), ("block", b, [("req",), ("block", a, [("req",)], how), ("req",)], "normal"), ("req",)])
            trees.append([("cfg", a), ("req",), ("cfgx", b), ("req",), ("blockx", b), ("req",)])
    for _ in range(300 if q else 6000):
        trees.append([("req",)] + gen_tree(rnd, 1, 4, OV))
    T = drv_config.run_all(trees)
    ctx.evaluations += len(T)
    verdicts = ctx.validate("Trace_Config", T, chunk=3000)
    ctx.judge(T, verdicts, signature=sig, nontrivial=lambda tr, v: json.dumps(tr["scenario"]["tree"]))
    ctx.rule = ("nested histories of configure / configure with an unknown setting / reconfigure block (normal or exceptional exit) / reconfigure with an unknown "
                "setting / request over timeout in {6,1}, retries in {10,2}, credentials in {V2C a, V2C b, V1 a, V3 u}: every single override as block and as "
                "configure, every pair of credential-family switches nested both ways (incl. configure inside a block), and seeded random trees to depth 4; "
                "each request records the timeout / retries the sender got and the version / community / user on the wire")
    ctx.assumptions = ["`behaves exactly as before` = same observable settings and protocol version; the v3 discovery cache is not part of it"]


def replay(ctx, path):
    tree = json.load(open(path))["trace"]["scenario"]["tree"]
    def tup(t):
        return [tuple(tup(x) if isinstance(x, list) and x and isinstance(x[0], list) else x for x in it) for it in t]
    T = drv_config.run_all([tup(tree)])
    ctx.judge(T, ctx.validate("Trace_Config", T), signature=sig)
