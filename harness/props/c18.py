"""C18 - temporary reconfiguration applies inside its block and is undone exactly.  DESIGN.md 6 / C18."""
import itertools, json, random
import drv_config

LEVEL = "model_checking"
TO, RE, CR = [6, 1, 0], [10, 2, 0], ["v2c:a", "v2c:b", "v1:a", "v3:u", "v3:w"]
CX = ["e1/", "/n1", "e1/n1", "/"]
HOW = ["normal", "exc", "normal", "exc", "base", "cancel"]      # leaving a block: normally, by an Exception, by a BaseException, by a cancellation


def overrides(rnd=None):
    out = []
    for t in TO + [None]:
        for r in RE + [None]:
            for c in CR + [None]:
                kv = {}
                if t is not None:
                    kv["timeout"] = t
                if r is not None:
                    kv["retries"] = r
                if c is not None:
                    kv["creds"] = c
                if kv:
                    out.append(kv)
    # the SNMPv3 context is a client setting like the others
    for cx in CX:
        out.append({"ctx": cx})
        for c in ("v3:u", "v3:w", "v2c:b"):
            out.append({"ctx": cx, "creds": c})
        out.append({"ctx": cx, "timeout": 1})
    return out


def gen_tree(rnd, depth, maxdepth, OV):
    items = []
    for _ in range(rnd.randint(1, 3)):
        k = rnd.random()
        if k < 0.30 and depth < maxdepth:
            items.append(("block", rnd.choice(OV), gen_tree(rnd, depth + 1, maxdepth, OV) + [("req",)], rnd.choice(HOW)))
            items.append(("req",))
        elif k < 0.5:
            items.append(("cfg", rnd.choice(OV)))
            items.append(("req",))
        elif k < 0.6:
            items.append(("cfgx", rnd.choice(OV + [{}])))
            items.append(("req",))
        elif k < 0.68:
            items.append(("blockx", rnd.choice(OV + [{}])))
            items.append(("req",))
        else:
            items.append(("req",))
    return items


def sig(tr, v):
    return dict(clause_family=v[0].split(":")[0])


def run(ctx):
    q = ctx.quick
    ctx.model_check("Config", "histories", constants=dict(MaxDepth=3 if q else 4, MaxLen=4 if q else 5, PinIsInstance=False, PinRestoreCfgOnly=False),
                    invariants=["VersionFollowsCredentials", "RequestObservesCurrentSettings", "StackDiscipline"], constraints=["Bound"],
                    must_cover=["Configure", "Enter", "Exit", "Request", "ConfigureUnknown"], timeout=3000)
    if not q:
        ctx.model_check("Config", "selftest_isinstance", constants=dict(MaxDepth=2, MaxLen=4, PinIsInstance=True, PinRestoreCfgOnly=False),
                        invariants=["VersionFollowsCredentials"], constraints=["Bound"], expect=["VersionFollowsCredentials"])
        ctx.model_check("Config", "selftest_restore", constants=dict(MaxDepth=2, MaxLen=4, PinIsInstance=False, PinRestoreCfgOnly=True),
                        invariants=["VersionFollowsCredentials"], constraints=["Bound"], expect=["VersionFollowsCredentials"])
    rnd = random.Random(ctx.seed)
    OV = overrides()
    trees = []
    # exhaustive small shapes: every override as a block / a configure / a configure inside a block / two nested blocks, both exits
    for kv in OV:
        for how in ("normal", "exc", "base", "cancel"):
            trees.append([("req",), ("block", kv, [("req",)], how), ("req",)])
        trees.append([("cfg", kv), ("req",), ("cfgx", kv), ("req",), ("blockx", kv), ("req",)])
    cred_ov = [kv for kv in OV if list(kv) == ["creds"]] + [{"timeout": 1}, {"retries": 2}]
    for a, b in itertools.product(cred_ov, repeat=2):
        for how in ("normal", "exc", "base", "cancel"):
            trees.append([("block", a, [("req",), ("cfg", b), ("req",)], how), ("req",)])
            trees.append([("cfg", a), ("block", b, [("req",), ("block", a, [("req",)], how), ("req",)], "normal"), ("req",)])
            trees.append([("cfg", a), ("req",), ("cfgx", b), ("req",), ("blockx", b), ("req",)])
    # context overrides on a client that has already talked SNMPv3 (cold and warm), nested and left in every way
    for cx in CX[:3]:
        for how in ("normal", "exc", "cancel"):
            for user in ("v3:u", "v3:w"):
                trees.append([("cfg", {"creds": user}), ("req",), ("block", {"ctx": cx}, [("req",)], how), ("req",), ("req",)])
                trees.append([("cfg", {"creds": user}), ("block", {"ctx": cx}, [("req",), ("block", {"ctx": "/n1"}, [("req",)], how), ("req",)], "normal"), ("req",)])
                trees.append([("cfg", {"creds": user, "ctx": cx}), ("req",), ("block", {"ctx": "/"}, [("req",)], how), ("req",)])
    # blocks in which no request completes (empty, or abandoned at once): leaving them still restores everything, incl. what the client had learned
    for a in CR:
        for b in CR:
            for how in ("normal", "exc", "cancel"):
                trees.append([("cfg", {"creds": a}), ("req",), ("block", {"creds": b}, [], how), ("req",), ("req",)])
                trees.append([("cfg", {"creds": a}), ("req",), ("block", {"creds": b, "timeout": 1}, [("block", {"creds": a}, [], how)], "normal"), ("req",)])
    for _ in range(300 if q else 6000):
        trees.append([("req",)] + gen_tree(rnd, 1, 4, OV))
    # specification -> code: behaviours generated by TLC's simulator from Config.tla, replayed action by action
    import tlc

    def kv_of(rec):
        kv = {}
        if rec["timeout"] != 0:
            kv["timeout"] = rec["timeout"]
        if rec["retries"] != 0:
            kv["retries"] = rec["retries"]
        if rec["creds"] != "-":
            kv["creds"] = rec["creds"]
        return kv
    cfg = tlc.write_cfg("C18_sim", constants=dict(MaxDepth=4, MaxLen=30, PinIsInstance=False, PinRestoreCfgOnly=False), constraints=["Bound"])
    for b in tlc.simulate("Config", cfg, num=150 if q else 2500, depth=12 if q else 22, seed=ctx.seed + 1):
        root, stack = [("req",)], []
        cur = root
        for st in b[1:]:
            a = st["action"]
            if a == "Configure":
                cur.append(("cfg", kv_of(st["args"][0])))
                cur.append(("req",))
            elif a == "ConfigureUnknown":
                cur.append(("cfgx", {}))
            elif a == "Enter":
                body = [("req",)]
                stack.append((cur, kv_of(st["args"][0]), body))
                cur = body
            elif a == "Exit" and stack:
                parent, kv, body = stack.pop()
                parent.append(("block", kv, body, rnd.choice(HOW)))
                parent.append(("req",))
                cur = parent
            elif a == "Request":
                cur.append(("req",))
        while stack:
            parent, kv, body = stack.pop()
            parent.append(("block", kv, body, rnd.choice(HOW)))
            parent.append(("req",))
        trees.append(root)
    T = drv_config.run_all(trees)
    ctx.evaluations += len(T)
    verdicts = ctx.validate("Trace_Config", T, chunk=3000)
    ctx.judge(T, verdicts, signature=sig, nontrivial=lambda tr, v: json.dumps(tr["scenario"]["tree"]))
    ctx.rule = ("behaviours generated by TLC's simulator from Config.tla replayed with real blocks; nested histories of configure / configure with an unknown setting / reconfigure block (left normally, by an Exception, by a BaseException, by a cancellation) / reconfigure with an unknown "
                "setting / request over timeout in {6,1,0}, retries in {10,2,0}, credentials in {V2C a, V2C b, V1 a, V3 u, V3 w}, SNMPv3 context (engine id / name) in 4 values: every single override as block and as "
                "configure, every pair of credential-family switches nested both ways (incl. configure inside a block), and seeded random trees to depth 4; "
                "each request records the timeout / retries the sender got for every datagram (v3 discovery probes included) the number of discovery probes, and the version / community / user on the wire")
    ctx.assumptions = ["`behaves exactly as before` = same observable settings, protocol version and - for SNMPv3 - no renewed discovery if none was needed on entering the block"]


def replay(ctx, path):
    tree = json.load(open(path))["trace"]["scenario"]["tree"]
    def tup(t):
        return [tuple(tup(x) if isinstance(x, list) and x and isinstance(x[0], list) else x for x in it) for it in t]
    T = drv_config.run_all([tup(tree)])
    ctx.judge(T, ctx.validate("Trace_Config", T), signature=sig)
