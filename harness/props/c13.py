"""C13 - UDP sender: bounded retries, exact timeout behaviour, no socket left open.  DESIGN.md 6 / C13."""
import itertools, json, random
import drv_udp

LEVEL = "model_checking"
OUT = ["reply", "none", "late", "two", "icmp", "lost", "gone"]
OUT_X = ["empty"]          # rarer outcomes, combined with the others in a sample of scripts


def sig(tr, v):
    sc = tr["scenario"]
    first = next((s for s in sc["script"] if s not in ("none", "late", "gone")), "all_unanswered")
    return dict(mode=sc["mode"], first_answer=first)


def run(ctx):
    q = ctx.quick
    ctx.model_check("Transport", "scripts", constants=dict(MaxRetries=4, Timeouts="{2, 6}", PinNoFinallyClose=False),
                    invariants=["BoundedRetries", "NoSocketLeftOpen", "TimeoutExactly", "TimeoutAtRetriesTimesTimeout", "FirstReplyReturned"],
                    properties=["Terminates"], must_cover=["OpenAndSend", "Wait"])
    if not q:
        ctx.model_check("Transport", "selftest_no_close", constants=dict(MaxRetries=3, Timeouts="{2}", PinNoFinallyClose=True),
                        invariants=["NoSocketLeftOpen"], expect=["NoSocketLeftOpen"])
    # any number of retries (unbounded integers), nondeterministic outcome per attempt: inductive invariant (Apalache)
    import framework, os
    framework.apalache_inductive(ctx, os.path.join(framework.VERIF, "spec", "apalache", "TransportInd.tla"),
                                 implied=["NoSocketLeftOpen", "BoundedRetries", "TimeoutExactly", "TimeoutAtRetriesTimesTimeout"])
    rnd = random.Random(ctx.seed)
    T = []
    tails = [b"", b"\x00", b"\x00\x00\x00", b"\x05\x00", b"\x82\x00"]
    for r in ((1, 2, 3, 4) if q else (1, 2, 3, 4, 5)):
        for script in itertools.product(OUT, repeat=r):
            for timeout in (2, 6):
                T.append(drv_udp.run_virtual(script, r, timeout, payload=bytes(rnd.randrange(256) for _ in range(rnd.choice([1, 40, 1400]))) if rnd.random() < 0.2 else b"REQUEST-\x00\xff",
                                             reply_tail=rnd.choice(tails), v6=rnd.random() < 0.25))      # a quarter of the scripts against an IPv6 agent
    for r in (1, 2, 3):
        for script in itertools.product(OUT + OUT_X, repeat=r):
            if "empty" in script:
                T.append(drv_udp.run_virtual(script, r, 2))
    # real sockets on the loopback interface
    lb = [("reply",), ("none", "reply"), ("none", "none"), ("icmp",), ("none", "none", "reply"), ("two",), ("late", "reply")]
    if not q:
        lb += [s for r in (1, 2, 3) for s in itertools.product(["reply", "none", "late", "two"], repeat=r)] + [("icmp",)] * 3
    LB = [drv_udp.run_loopback(s, len(s), 0.1) for s in lb]
    import socket
    try:
        _s = socket.socket(socket.AF_INET6, socket.SOCK_DGRAM)
        _s.bind(("::1", 0))
        _s.close()
        LB += [drv_udp.run_loopback(s, len(s), 0.1, v6=True) for s in lb[:5]]      # the same on the IPv6 loopback, where the sandbox has one
    except OSError:
        pass
    # real sockets and a real scheduler: a reply that misses its 100 ms window under load is not a property violation.
    # A loopback script is reported only if it fails three times in a row (machinery noise is never a VIOLATION).
    for attempt in range(2):
        v = ctx.validate("Trace_Transport", LB, name="C13lb")
        bad = [i for i in range(len(LB)) if v[i + 1][0] != "ok"]
        ctx.traces -= len(LB)
        if not bad:
            break
        for i in bad:
            sc = LB[i]["scenario"]
            LB[i] = drv_udp.run_loopback(sc["script"], sc["retries"], 0.2 * (attempt + 1), v6=bool(sc.get("v6")))
    T += LB
    ctx.evaluations += len(T)
    verdicts = ctx.validate("Trace_Transport", T, chunk=4000)
    ctx.judge(T, verdicts, signature=sig, nontrivial=lambda tr, v: json.dumps([tr["scenario"]["script"], tr["scenario"]["timeout"], tr["scenario"]["mode"]]))
    ctx.rule = ("every outcome script over {reply, none, late, two, icmp, lost, gone (connection_lost(None))} (and zero-length replies in scripts up to length 3) of length = retries in 1..4 (2800 scripts; 1..5 = 19607 in the thorough tier) x timeout in {2, 6} on the virtual-time "
                "loop with recording transports (replies ending in 00 / NULL / endOfMibView octets included), IPv4 and IPv6 peers, plus %d scripts on real loopback sockets "
                "(scripted responder, closed port for ICMP, /proc/self/fd balance); distinct = distinct (script, timeout, mode)") % len(lb)
    ctx.exhaustive = True
    ctx.assumptions = ["virtual tier: asyncio's datagram contract (nothing is delivered after close/abort; sendto on a closed transport is discarded)",
                       "loopback tier asserts lower bounds on elapsed time and the fd balance only"]


def replay(ctx, path):
    sc = json.load(open(path))["trace"]["scenario"]
    T = [drv_udp.run_virtual(sc["script"], sc["retries"], sc["timeout"] // 1000, bytes(sc.get("payload", b"REQ")), v6=bool(sc.get("v6")))] if sc["mode"] == "virtual" else [drv_udp.run_loopback(sc["script"], sc["retries"], 0.05, v6=bool(sc.get("v6")))]
    ctx.judge(T, ctx.validate("Trace_Transport", T), signature=sig)
