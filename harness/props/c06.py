"""C06 - every response value reaches the caller with the type and value that was sent; re-encoding keeps the
content (spec/Ber.tla as the independent decoder).  DESIGN.md 6 / C06."""
import asyncio, json, random
import drv_ber
from props.c05 import value_lattice, oid_lattice, REQIDS

LEVEL = "exploration"
PROTOS = ["v1", "v2c", "v3n", "v3a_md5", "v3a_sha", "v3p_md5", "v3p_sha"]
FORM_KEYS = ["top", "pdu", "vbl", "vb", "oid", "int", "str", "usm", "hdr", "spw", "spdu", "ver", "hf", "sf",
             "uf_engine", "uf_boots", "uf_time", "uf_user", "uf_auth", "uf_priv"]


def sig(tr, v):
    sc = tr["scenario"]
    return dict(kind=sc["kind"], version="v3" if sc["proto"].startswith("v3") else sc["proto"], form=sc.get("form", ""))


def cases(ctx):
    rnd = random.Random(ctx.seed)
    q = ctx.quick
    vals = [v for v in value_lattice(rnd)]
    lattice = oid_lattice(rnd)
    vals += [("ObjectIdentifier", o) for o in lattice]        # incl. sub-identifiers up to 2^32-1 (five base-128 octets) and 128 arcs
    vals += [("NoSuchObject", None), ("NoSuchInstance", None), ("EndOfMibView", None), ("Null", None)]
    big = [("OctetString", bytes(rnd.randrange(256) for _ in range(n))) for n in ([65000] if q else [16383, 16384, 65000, 65400])]
    C = []
    # (a) every lattice value once, minimal encoding, rotating protocol
    for i, v in enumerate(vals):
        C.append(dict(proto=PROTOS[i % len(PROTOS)], values=[(v[0], v[1], None)], forms={}, form="minimal"))
    # (b) length forms: all TLVs at once with k length octets, and one TLV class at a time
    for k in (1, 2, 3, 4):
        for proto in PROTOS:
            for _ in range(2 if q else 12):
                vs = [rnd.choice(vals) for _ in range(rnd.choice([1, 2, 5]))]
                C.append(dict(proto=proto, values=[(a, b, k) for a, b in vs], forms={key: k for key in FORM_KEYS}, form="all%d" % k))
            for key in FORM_KEYS + ["value"]:
                if q and rnd.random() > 0.5:
                    continue
                vs = [rnd.choice(vals) for _ in range(rnd.choice([1, 3]))]
                C.append(dict(proto=proto, values=[(a, b, k if key == "value" else None) for a, b in vs], forms={} if key == "value" else {key: k},
                              form="%s%d" % (key, k)))
    # (a2) single-value operations: get / getnext deliver the same value (markers excluded: a missing object raises NoSuchOID by design)
    for i, v in enumerate(vals):
        if v[0] in ("NoSuchObject", "NoSuchInstance", "EndOfMibView"):
            continue
        if q and i % 3 and v[0] != "Null":
            continue
        for api in (("get", "getnext", "walk") if v[0] == "Null" or not q else (("get", "getnext", "walk")[(i // 3) % 3],)):
            C.append(dict(proto=PROTOS[(i + 3) % len(PROTOS)], values=[(v[0], v[1], None)], forms={}, form="single", api=api))
    # (a3) the same values as they reach a caller of the pythonic API: int, bytes, str OID, IPv4Address, timedelta (to the tick), None
    pyvals = [v for v in vals if v[0] not in ("NoSuchObject", "NoSuchInstance", "EndOfMibView")] + [("TimeTicks", 0), ("TimeTicks", 1), ("Counter", 0), ("Integer", 0), ("Gauge", 0), ("Counter64", 0)]
    for i, v in enumerate(pyvals):
        if q and i % 2 and v[1] not in (0, None, b""):
            continue
        C.append(dict(proto=PROTOS[(i + 5) % len(PROTOS)], values=[(v[0], v[1], None)], forms={}, form="pythonic", api="py.get"))
    for _ in range(10 if q else 100):
        C.append(dict(proto=rnd.choice(PROTOS), values=[rnd.choice(pyvals) + (None,) for _ in range(rnd.choice([2, 5]))], forms={}, form="pythonic", api="py.multiget"))
    # (c) binding list lengths 0..40 and error-index / request-id values
    for n in ([0, 1, 2, 40] if q else list(range(0, 41))):
        C.append(dict(proto=rnd.choice(PROTOS), values=[rnd.choice(vals) + (None,) for _ in range(n)], forms={}, form="count%d" % n))
    for r in REQIDS:
        C.append(dict(proto=rnd.choice(PROTOS), values=[rnd.choice(vals) + (None,)], forms={}, reqid=r, ei=rnd.choice([0, 0, 1, 2, 127, 128, 255, 2 ** 31 - 1]), form="reqid"))
    # (c2) binding NAMES with sub-identifiers at every base-128 length boundary up to 2^32-1
    for o in lattice:
        if len(o) >= 3 and o[0] == 1:
            C.append(dict(proto=rnd.choice(PROTOS), values=[rnd.choice(vals) + (None,)], oids=[o], forms={}, form="names"))
    # (c3) SNMPv3 agents that announce a small msgMaxSize (what THEY can receive) and send responses larger than that
    for mm in (484, 1472, 65507, 2 ** 31 - 1):
        for n in (10, 600, 3000):
            C.append(dict(proto=rnd.choice(PROTOS[2:]), values=[("OctetString", bytes(rnd.randrange(256) for _ in range(n)), None)], forms={}, form="msgmax", msgmax=mm))
    # (d) a few very long strings (three-octet long form)
    for v in big:
        C.append(dict(proto=rnd.choice(["v2c", "v3a_md5", "v3p_sha"]), values=[(v[0], v[1], None)], forms={}, form="big"))
    return C


def run(ctx):
    C = cases(ctx)

    async def main():
        T = []
        for c in C:
            ev, out = await drv_ber.deliver_case(c)
            sc = dict(proto=c["proto"], kind="deliver", form=c["form"], n=len(c["values"]))
            T.append(dict(scenario=sc, events=ev))
            if out.get("raw") and (c["form"] in ("minimal", "reqid") or c["form"].startswith(("all", "count"))):
                for e in drv_ber.reencode_events(out["raw"], out["plain"], c["proto"]):
                    T.append(dict(scenario=dict(proto=c["proto"], kind="reencode:" + e["what"], form=c["form"]), events=[e]))
        return T
    T = asyncio.run(main())
    ctx.evaluations += len(T)
    verdicts = ctx.validate("Trace_Ber", T, chunk=1500)
    ctx.judge(T, verdicts, signature=sig, nontrivial=lambda tr, v: json.dumps([tr["scenario"], tr["events"][0].get("raw", tr["events"][0].get("inb"))]))
    ctx.rule = ("responses built by the reference encoder from the value lattice (every base/application type and the three exception markers at and around "
                "every byte boundary, strings of length 0..65400, OIDs with sub-identifiers up to 2^32-1, binding lists of 0..40, request-id / error-index "
                "values, binding names with large sub-identifiers, v3 agents announcing msgMaxSize 484..2^31-1) in every definite length form (short, minimal long, long with 1..4 length octets applied to all TLVs at once and to one TLV class at "
                "a time) fed to Client.multiget (single values also through get / getnext / walk, and through PyWrapper.get / multiget with the documented conversion of each type) over v1/v2c/v3 levels; TLC decodes the same bytes with Ber.tla and compares type and value with what the "
                "caller received; the library's decode entry points re-encode PDU / scoped PDU / USM parameters / message and TLC compares contents")
    ctx.assumptions = ["integer contents octets are minimal (X.690 8.3.2); only length forms vary", "unsigned application types are sent as non-negative two's complement"]


def replay(ctx, path):
    d = json.load(open(path))
    T = [d["trace"]]
    ctx.judge(T, ctx.validate("Trace_Ber", T), signature=sig)
