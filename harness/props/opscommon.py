"""Shared by C04, C07, C08: model checking of Ops.tla, scenario enumeration, replay, trace validation."""
import itertools, json, random
import drv_ops, drv_walk
from absmap import VALUE_TYPES

U = [[1, 1], [1, 2], [2, 1]]                 # = MC_Ops!InstsV
R = [[1], [1, 1], [1, 2], [2, 1], [9]]       # = MC_Ops!ReqV
OPS = ["get", "multiget", "getnext", "multigetnext", "set", "multiset", "bulkget"]
SINGLE = ("get", "getnext", "set")
BASE = dict(Insts=("<-", "InstsV"), ReqOids=("<-", "ReqV"), MaxLen=2, Versions=("<-", "AllV"), OpsSet=("<-", "AllOps"),
            Perturbs=("<-", "PertData"), ErrStatuses="{0}", MaxTicks=0, PinSecondRead=False, PinErrIndex=False, PinGetNextEnd=False,
            PinErrBeforeId=False, PinV1ErrBeforeCommunity=False, IdErrStatuses="{0}")
INV_C04 = ["ExactAnswers", "CountMismatchRefused", "OversizeRefused", "SetReturnsConfirmed", "BulkFaithful", "NoNonSnmpException", "Soundness"]
INV_C07 = ["Soundness", "Completeness", "Rejects", "WalkEndSound", "CommunityVersionRefused"]
INV_C08 = ["ErrorSurfaces", "NoNonSnmpException"]
PROTOS = ["v1", "v2c", "v3n", "v3a_md5", "v3a_sha", "v3p_md5", "v3p_sha"]


def dbs(k):
    """every database over U with value types rotated by k"""
    out = []
    for mask in range(1 << len(U)):
        out.append([[o, [VALUE_TYPES[(j + k) % len(VALUE_TYPES)], 10 * (j + 1) + k % 7]] for j, o in enumerate(U) if mask >> j & 1])
    return out


def oid_lists(op, maxlen):
    if op in SINGLE:
        return [[o] for o in R]
    out = []
    for n in range(1, maxlen + 1):
        for t in itertools.product(R, repeat=n):
            if op == "multiset" and len(set(map(tuple, t))) != n:
                continue
            out.append([list(o) for o in t])
    return out


def setvals(rnd, oids):
    return [[rnd.choice(VALUE_TYPES), rnd.randint(1, 60)] for _ in oids]


def sig_ops(tr, v):
    sc = tr["scenario"]
    return dict(op=sc["op"], version="v3" if sc["proto"].startswith("v3") else sc["proto"], perturb=sc.get("perturb", "none"))


def nontrivial_ops(tr, v):
    sc = tr["scenario"]
    return json.dumps([sc["op"], sc["oids"], sc.get("nr"), sc.get("mr"), sc["db"], sc["proto"], sc.get("perturb"), sc.get("es"), sc.get("ei"),
                       sc.get("echo"), sc.get("ticks"), sc.get("disco")])


def drive_and_judge(ctx, scenarios, chunk=8000):
    traces = drv_ops.run_all(scenarios)
    ctx.evaluations += len(traces)
    verdicts = ctx.validate("Trace_Ops", traces, chunk=chunk)
    ctx.judge(traces, verdicts, signature=sig_ops, nontrivial=nontrivial_ops)
    return traces, verdicts


def sig_walk(tr, v):
    sc = tr["scenario"]
    return dict(api=sc["api"], version="v3" if sc["proto"].startswith("v3") else sc["proto"], err=sc.get("err", {}).get("es"))


def drive_walks(ctx, scenarios):
    traces = drv_walk.run_all(scenarios)
    ctx.evaluations += len(traces)
    verdicts = ctx.validate("Trace_Walk", traces, name=ctx.pid + "w")
    ctx.judge(traces, verdicts, signature=sig_walk, nontrivial=lambda tr, v: json.dumps(tr["scenario"], sort_keys=True))
