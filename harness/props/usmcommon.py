"""Shared by C09-C11: Usm.tla model checking and exchange replay."""
import json
import drv_usm

PINS = dict(PinAuthFlagTrusted=False, PinConfirmedOnlyGet=False, PinReserialise=False, PinLazyErrorFirst=False, PinStatsInResponse=False, Attack=False)
INV_C10 = ["RequestAccepted", "FlagsExact", "SecParamsFromDiscovery", "AuthenticAccepted"]
INV_C11 = ["NeverPlain", "RequestAccepted", "AuthenticAccepted"]
INV_C09 = ["NoForgery", "ReportIsError", "AuthenticAccepted"]


def sig(tr, v):
    sc = tr["scenario"]
    return dict(op=sc["op"], level=sc["level"], hash=sc.get("hash"))


def drive(ctx, S, chunk=1500):
    T = drv_usm.run_all(S)
    ctx.evaluations += len(T)
    verdicts = ctx.validate("Trace_Usm", T, chunk=chunk)
    ctx.judge(T, verdicts, signature=sig, nontrivial=lambda tr, v: json.dumps(tr["events"][0]["req"]["raw"]))
    return T, verdicts
