"""C16 - table fetches: one row per index, every cell exactly once, both variants agree.  DESIGN.md 6 / C16."""
import itertools, json, random
import drv_walk

LEVEL = "model_checking"
TABLE, ENTRY = [7, 2], [7, 2, 1]
NEIGH = [[7, 1, 0], [7, 3, 0], [7, 20, 1, 1]]
IDX_Q = [[1], [2], [1, 0], [1, 2], [0], [300], [20000], [16383], [16384]]
IDX_T = [[1], [2], [10], [1, 0], [1, 2], [0], [0, 0], [2, 1, 0], [10, 0, 0, 0], [192, 168, 1, 0], [300], [20000], [16383], [16384], [127, 128]]


def scenario(cells, nbrs, api, bulk, proto="v2c", cut="full"):
    db = sorted([ENTRY + [c] + i for c, i in cells] + nbrs)
    toks = [100 + k for k in range(len(db))]
    return dict(db=db, toks=toks, entry=ENTRY, roots=[ENTRY if api.endswith("table") and "bulk" not in api else TABLE], api=api, bulk=bulk, proto=proto, cut=cut)


def sig(tr, v):
    sc = tr["scenario"]
    return dict(api=sc["api"], bulk=sc["bulk"])


def run(ctx):
    q = ctx.quick
    ctx.model_check("Table", "tables", constants=dict(Cols="{1,2,3}", Idxs=("<-", "IdxQ" if q else "IdxT"), MaxCells=6 if q else 5), invariants=["RowsExact"],
                    must_cover=["Fetch"], timeout=3000)
    rnd = random.Random(ctx.seed)
    idxs = IDX_Q if q else IDX_T
    allcells = [(c, i) for c in (1, 2, 3) for i in idxs]
    S = []
    nb_choices = [[], [NEIGH[0]], [NEIGH[1]], [NEIGH[2]], NEIGH, [NEIGH[0], NEIGH[2]]]
    sets = []
    for k in range(0, 4 if q else 5):
        sets += list(itertools.combinations(allcells, k))
    if q:
        sets = rnd.sample(sets, 250) + [tuple(allcells)] + [tuple((1, i) for i in idxs)]      # + the full table + a one-column table
    else:
        sets = rnd.sample(sets, min(len(sets), 4000)) + [tuple(allcells)] + [tuple((c, i) for i in idxs) for c in (1, 2, 3)]
    for cells in sets:
        nb = rnd.choice(nb_choices)
        for api, bulks in (("table", [0]), ("bulktable", [1, 2, 3, 5, 7, 10]), ("py.table", [0]), ("py.bulktable", [1, 3, 10])):
            if api.startswith("py.") and rnd.random() > 0.3:
                continue
            for b in (bulks if not q else [rnd.choice(bulks)]):
                S.append(scenario(list(cells), nb, api, b, proto=rnd.choice(["v2c"] * 6 + ["v3a_md5", "v3p_sha"]),
                                  cut=rnd.choice(["full", "one_row", "minus_one", "row_plus_one"])))
    # SNMPv1 (GETNEXT tables only): the end of the view is reported as noSuchName for the whole PDU
    for cells in rnd.sample(sets, 40 if q else 300):
        for nb in ([], [NEIGH[0]], NEIGH):
            S.append(scenario(list(cells), nb, "table", 0, proto="v1"))
    # the same fetches with the library's loggers at DEBUG (a configuration, not an input): nothing observable may change
    for sc in rnd.sample(S, 60 if q else 600):
        S.append(dict(sc, debuglog=True))
    # table() and bulktable() of the same table running concurrently on one client
    for cells in rnd.sample(sets, 40 if q else 400) + [tuple(allcells)]:
        if not cells:
            continue
        sc = scenario(list(cells), rnd.choice(nb_choices), "pair", rnd.choice([1, 2, 4, 10]))
        sc["roots"] = [ENTRY]
        S.append(dict(sc, yields=rnd.choice([1, 2, 3])))
    T = drv_walk.run_all(S)
    ctx.evaluations += len(T)
    verdicts = ctx.validate("Trace_Table", T, chunk=3000)
    ctx.judge(T, verdicts, signature=sig, nontrivial=lambda tr, v: json.dumps([tr["scenario"]["db"], tr["scenario"]["api"], tr["scenario"]["bulk"]]) if len(tr["scenario"]["db"]) >= 2 else None)
    ctx.rule = ("tables of 1..3 columns x index suffixes of 1..%d components (components 0 and 10, shared prefixes, values either side of the one/two/three-octet sub-identifier boundaries) with sparse columns, 0..n rows and neighbouring "
                "objects before / after the table (incl. a sibling arc whose decimal spelling extends the table's: .2 / .20), fetched with table(entry OID), "
                "bulktable(table OID) at bulk sizes 1..10 under four agent truncation policies, raw and pythonic, a sample also with DEBUG logging on, and table() / bulktable() / table() of one table running concurrently on one client; every variant is compared with the rows the "
                "database defines, hence with each other; non-trivial = distinct database with >= 2 objects") % (2 if q else 4)
    ctx.assumptions = ["per SMI the table node has exactly one child (the entry): no instance lives directly under the table OID",
                       "table() is addressed by the entry OID and bulktable() by the table OID, as their documentation and tests prescribe"]


def replay(ctx, path):
    sc = json.load(open(path))["trace"]["scenario"]
    if sc.get("pair"):
        sc = dict(sc, api="pair")
    T = drv_walk.run_all([sc])
    ctx.judge(T, ctx.validate("Trace_Table", T), signature=sig)
