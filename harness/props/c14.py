"""C14 - concurrent operations on a shared client do not disturb one another.  DESIGN.md 6 / C14."""
import asyncio, itertools, json, random
import drv_conc as D

LEVEL = "model_checking"
BASE = dict(Ops=("<-", "Ops3"), Len0=("<-", "Len3"), Overlap=("<-", "NoOverlap"), V3=True, MaxTicks=2,
            PinSharedRequestId=False, PinSingleSlotMsgId=False, PinSharedSeen=False)


def distinct_orders(word, limit, rnd):
    """all distinct permutations of the multiset `word` if there are <= limit of them, else `limit` seeded samples"""
    from math import factorial
    from collections import Counter
    n = factorial(len(word))
    for c in Counter(word).values():
        n //= factorial(c)
    if n <= limit:
        return sorted(set(itertools.permutations(word)))
    out = set()
    while len(out) < limit:
        w = list(word)
        rnd.shuffle(w)
        out.add(tuple(w))
    return sorted(out)


def sig(tr, v):
    sc = tr["scenario"]
    return dict(proto=sc["proto"], ops=",".join(sorted(o for o, _ in sc["ops"])), clients=sc["clients"])


def run(ctx):
    q = ctx.quick
    for v3 in (True, False):
        ctx.model_check("MC_Concurrent", "interleavings_v3" if v3 else "interleavings_v2c", constants=dict(BASE, V3=v3, MaxTicks=2 if q else 3),
                        invariants=["SoloResult", "DiscoveryBounded"], must_cover=["Send", "Release", "Tick"])
    ctx.model_check("MC_Concurrent", "overlapping_walks", constants=dict(BASE, Ops=("<-", "Ops3b"), Len0=("<-", "Len3b"), Overlap=("<-", "OverlapAB")),
                    invariants=["SoloResult"], must_cover=["Release"])
    if not q:
        for pin in ("PinSharedRequestId", "PinSingleSlotMsgId"):
            ctx.model_check("MC_Concurrent", "selftest_" + pin, constants=dict(BASE, **{pin: True}), invariants=["SoloResult"], expect=["SoloResult"])
        ctx.model_check("MC_Concurrent", "selftest_shared_seen", constants=dict(BASE, Ops=("<-", "Ops3b"), Len0=("<-", "Len3b"), Overlap=("<-", "OverlapAB"), PinSharedSeen=True),
                        invariants=["SoloResult"], expect=["SoloResult"])
    rnd = random.Random(ctx.seed)
    sets2 = [("get", "walkA"), ("walkA", "walkB"), ("walkA", "bulkA"), ("get", "set"), ("mget", "bulkC"), ("walkB", "table"), ("get", "get2"), ("walkC", "set2"),
             ("get3", "walkA"), ("get3", "walkB"), ("get3", "next3"), ("next3", "walkB")]       # GET and GETNEXT of the same name in flight together
    sets3 = [("get", "walkB", "bulkC"), ("walkA", "walkB", "set"), ("mget", "table", "get2")]
    big = [("get", "get2", "mget", "set"), ("walkA", "walkB", "walkC", "bulkA", "get"), ("get", "set", "set2", "mget", "walkC", "bulkC")]
    T = []
    for proto in ("v2c", "v3p_md5"):
        solo_cache, ex_cache = {}, {}

        def prep(ops, clients, same_agent=False, **kw):
            key = (tuple(map(tuple, ops)), clients, same_agent, tuple(sorted(kw.items())))
            if key not in solo_cache:
                solo_cache[key] = D.solo_results(proto, ops, clients, same_agent, **kw)
                ex_cache[key] = D.exchanges(proto, ops, clients, same_agent)
            return solo_cache[key], ex_cache[key]
        plans = [([[n, 0] for n in s], 1, 400 if not q else 40) for s in sets2] + [([[n, 0] for n in s], 1, 1200 if not q else 60) for s in sets3] \
            + [([[n, 0] for n in s], 1, 300 if not q else 25) for s in big] \
            + [([["walkA", 0], ["walkA", 1]], 2, 200 if not q else 30), ([["get", 0], ["bulkA", 1], ["set", 0]], 2, 200 if not q else 30),
               ([["get", 1], ["get", 0]], 2, 50)]
        plans.append(([["mget150", 0], ["get", 0], ["set", 0]], 1, 30 if q else 200))      # a multiget large enough for an implementation to split it
        for ops, clients, limit in plans:
            solo, ex = prep(ops, clients)
            word = [k for k, n in ex.items() for _ in range(n)]
            for order in distinct_orders(word, limit, rnd):
                sc = dict(proto=proto, ops=ops, order=list(order), clients=clients)
                ev = asyncio.run(D.run_schedule(sc))
                T.append(dict(scenario=dict(sc, solo=solo), events=ev))
            if clients == 2:
                # the second client is used for the first time only after the first client's discovery (or more) was answered
                first = [k for k in ex if k.endswith("@0")]
                second = [k for k in ex if k.endswith("@1")]
                for after in (1, 2, 3):
                    order = (first * 12)[:after] + [k for k in word if True]
                    sc = dict(proto=proto, ops=ops, order=order, clients=clients, late={k: after for k in second})
                    T.append(dict(scenario=dict(sc, solo=solo), events=asyncio.run(D.run_schedule(sc))))
        # an operation with several requests in flight at once (if the implementation splits it): its answers arrive newest first
        for ops in ([["mget150", 0]], [["mget150", 0], ["get", 0]], [["walkA", 0], ["mget150", 0]]):
            solo, ex = prep(ops, 1, False)
            word = [k for k, n in ex.items() for _ in range(n)]
            for order in distinct_orders(word, 6, rnd):
                sc = dict(proto=proto, ops=ops, order=list(order), clients=1, lifo=True)
                T.append(dict(scenario=dict(sc, solo=solo), events=asyncio.run(D.run_schedule(sc))))
        # (a) the clock stands still, so concurrent requests share their request id; (b) the agent answers at once and the network reorders the
        # answers (an older-stamped authentic answer may arrive after a newer one)
        for kw in (dict(freeze=True), dict(eager=True)):
            for ops, limit in [([["get", 0], ["get2", 0]], 10), ([["get", 0], ["walkA", 0], ["walkC", 0], ["set", 0]], 40 if q else 300), ([["walkA", 0], ["bulkA", 0], ["set2", 0]], 30 if q else 200),
                               ([["set", 0], ["set2", 0], ["get", 0]], 30 if q else 200)]:
                solo, ex = prep(ops, 1, False, **kw)
                word = [k for k, n in ex.items() for _ in range(n)]
                for order in distinct_orders(word, limit, rnd):
                    sc = dict(proto=proto, ops=ops, order=list(order), clients=1, **kw)
                    T.append(dict(scenario=dict(sc, solo=solo), events=asyncio.run(D.run_schedule(sc))))
        if proto.startswith("v3"):
            # two / three clients for DIFFERENT agents that announce one and the same engine id (clones) but count their boots apart: what a
            # client learns about "the engine" is that client's knowledge alone
            for ops, clients, limit in [([["get", 0], ["get", 1]], 2, 40), ([["walkC", 0], ["get2", 1], ["set", 0]], 2, 40 if q else 300),
                                        ([["get", 2], ["bulkA", 1], ["get3", 0]], 3, 40 if q else 300)]:
                solo, ex = prep(ops, clients, False, same_engine=True)
                word = [k for k, n in ex.items() for _ in range(n)]
                for order in distinct_orders(word, limit, rnd):
                    sc = dict(proto=proto, ops=ops, order=list(order), clients=clients, same_engine=True)
                    T.append(dict(scenario=dict(sc, solo=solo), events=asyncio.run(D.run_schedule(sc))))
                second = [k for k in ex if not k.endswith("@0")]
                for after in (1, 2, 3):      # ... also when the other clients are first used after the first one has finished discovery (or more)
                    sc = dict(proto=proto, ops=ops, order=([k for k in ex if k.endswith("@0")] * 12)[:after] + word, clients=clients, same_engine=True,
                              late={k: after for k in second})
                    T.append(dict(scenario=dict(sc, solo=solo), events=asyncio.run(D.run_schedule(sc))))
            # different users (other pass-phrases, same hash) on ONE agent: keys are per user and engine, never per engine alone
            for ops, clients, limit in [([["get", 0], ["get", 1]], 2, 40), ([["get", 0], ["walkC", 1], ["set", 2]], 3, 60 if q else 300), ([["get2", 1], ["get", 0]], 2, 40)]:
                solo, ex = prep(ops, clients, True)
                word = [k for k, n in ex.items() for _ in range(n)]
                for order in distinct_orders(word, limit, rnd):
                    sc = dict(proto=proto, ops=ops, order=list(order), clients=clients, same_agent=True)
                    T.append(dict(scenario=dict(sc, solo=solo), events=asyncio.run(D.run_schedule(sc))))
    ctx.evaluations += len(T)
    verdicts = ctx.validate("Trace_Concurrent", T, chunk=3000)
    ctx.judge(T, verdicts, signature=sig, nontrivial=lambda tr, v: json.dumps([tr["scenario"]["proto"], tr["scenario"]["ops"], tr["scenario"]["order"]]))
    ctx.rule = ("sets of 2..6 concurrent operations (gets, multiget, sets, walks incl. overlapping subtrees, bulk walks, table) on one shared client and on two clients "
                "for different agents on one loop (with engine ids of their own, or one engine id announced by all of them with different boots counters), two / three clients of different users (other pass-phrases) for one agent, GET and GETNEXT of the same name in flight together, v2c and v3 authPriv; all distinct orders of answering the pending requests for the small sets (up to the limit), "
                "seeded orders beyond; the clock advances between any two requests so that request ids differ, or stands still so that they coincide; answers produced on release or at once (and then "
                "reordered); the transport settings of every request are compared too; each operation's outcome is compared with its solo outcome")
    ctx.exhaustive = False
    ctx.assumptions = ["a response is always the agent's answer to the request it is released for (responses are never swapped between requests by the harness)"]


def replay(ctx, path):
    sc = json.load(open(path))["trace"]["scenario"]
    solo = sc.pop("solo")
    T = [dict(scenario=dict(sc, solo=solo), events=asyncio.run(D.run_schedule(sc)))]
    ctx.judge(T, ctx.validate("Trace_Concurrent", T), signature=sig)
