"""C12 - discovery happens first and timeliness is kept for the client's whole life.  DESIGN.md 6 / C12."""
import itertools, json, random
import drv_time

LEVEL = "model_checking"
ALPHA = ["op", 1, 149, 151, 100000, "reboot"]


def sig(tr, v):
    sc = tr["scenario"]
    return dict(level=sc["level"], disco=sc.get("disco", "ok"), reboots="reboot" in sc["history"])


def run(ctx):
    q = ctx.quick
    ctx.model_check("UsmTime", "histories", constants=dict(PinFrozen=False, Steps="{1, 149, 151, 100000}", MaxDepth=7 if q else 9),
                    invariants=["OnlyAfterReboot", "AtMostOneFailPerReboot", "DiscoveryOnce"], constraints=["Depth"], must_cover=["Advance", "Reboot", "Request"])
    if not q:
        ctx.model_check("UsmTime", "selftest_frozen", constants=dict(PinFrozen=True, Steps="{1, 149, 151, 100000}", MaxDepth=6),
                        invariants=["OnlyAfterReboot", "AtMostOneFailPerReboot"], constraints=["Depth"], expect=["OnlyAfterReboot", "AtMostOneFailPerReboot"])
    rnd = random.Random(ctx.seed)
    S = []
    base = dict(level="auth", hash="md5", authpw=b"maplesyrup", privpw=b"privsecret")
    depth = 4 if q else 6
    for n in range(1, depth + 1):
        for h in itertools.product(ALPHA, repeat=n):
            if "op" not in h or h[-1] != "op":
                continue
            S.append(dict(base, history=list(h) , agent_time=rnd.choice([0, 1000, 2 ** 31 - 400000])))
    # longer seeded histories and the other security levels
    for _ in range(150 if q else 3000):
        h = [rnd.choice(ALPHA + ["op", "op", 60, 3600, 86400 * 3]) for _ in range(rnd.randint(5, 14))] + ["op"]
        lv = rnd.choice(["auth", "authpriv", "auth", "noauth"])
        S.append(dict(base, level=lv, hash=rnd.choice(["md5", "sha1"]), history=h, agent_time=rnd.choice([0, 1000, 500000])))
    for kind in ("msgid_plus1", "no_varbinds"):
        for lv in ("noauth", "auth", "authpriv"):
            S.append(dict(base, level=lv, history=["op", "op"], disco=kind))
    T = drv_time.run_all(S)
    ctx.evaluations += len(T)
    verdicts = ctx.validate("Trace_UsmTime", T, chunk=3000)
    ctx.judge(T, verdicts, signature=sig, nontrivial=lambda tr, v: json.dumps(tr["scenario"]["history"]) + tr["scenario"]["level"])
    ctx.rule = ("every history of length <= %d over {request, advance 1 s, 149 s, 151 s, 100000 s, reboot} ending in a request (exhaustive), seeded longer histories "
                "(up to 15 steps, advances up to 3 days) over all security levels and both hashes, discovery replies with a mismatching msgID / without bindings; "
                "agent and client clocks are the same virtual time source") % depth
    ctx.exhaustive = True
    ctx.assumptions = ["weaker reading: after an agent reboot exactly one request may fail (the client cannot know the new boots value before it is told); "
                       "the one after it must succeed", "the agent's clock only moves forward except for reboots"]


def replay(ctx, path):
    sc = json.load(open(path))["trace"]["scenario"]
    for k in ("authpw", "privpw"):
        sc[k] = bytes(sc[k])
    T = drv_time.run_all([sc])
    ctx.judge(T, ctx.validate("Trace_UsmTime", T), signature=sig)
