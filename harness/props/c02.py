"""C02 - bulk walk returns exactly what the GETNEXT walk returns.  DESIGN.md section 6 / C02."""
import random
from props import walkcommon as W
import drv_walk

LEVEL = "model_checking"


def run(ctx):
    q = ctx.quick
    bulks = "{0,1,2}" if q else "{0,1,2,3}"
    ctx.model_check("MC_Walk", "bulk", constants=W.consts("CandQ" if q else "CandT", "RootC", 3, bulks, False),
                    invariants=W.INV_CONF, constraints=["NreqCap"], must_cover=["Round", "Done"], timeout=3000)
    ctx.model_check("MC_Walk", "bulk_terminates", constants=W.consts("CandQ", "RootC", 2 if q else 3, bulks, False),
                    properties=["Terminates"], must_cover=["Round"], timeout=3000)
    # RFC 3416 4.2.3 in full: responses that end inside their first repetition (the bulk fetcher completes the repetition)
    ctx.model_check("MC_Walk", "bulk_partial_first", constants=W.consts("CandQ", "RootC", 2 if q else 3, "{1,2}", False, PartialFirst=True),
                    invariants=W.INV_CONF, constraints=["NreqCap"], must_cover=["Round", "Done"], timeout=3000)
    if not q:
        ctx.model_check("MC_Walk", "selftest_partial_first_lost", constants=W.consts("CandQ", "RootC", 2, "{1,2}", False, PartialFirst=True, PinPartialFirstLost=True),
                        invariants=W.INV_CONF, constraints=["NreqCap"], expect=["Complete", "BulkEqualsGetNext"])
        ctx.model_check("MC_Walk", "selftest_collapse", constants=W.consts("CandQ", "RootC", 3, "{1,2}", False, PinCollapse=True),
                        invariants=W.INV_CONF, constraints=["NreqCap"], expect=["Complete", "BulkEqualsGetNext"])
    rnd = random.Random(ctx.seed)
    scs = W.gen(ctx, "conformant")
    S = []
    cuts = list(drv_walk.CUTS)
    for sc in scs:
        n = len(sc["roots"])
        if q and rnd.random() > (0.5 if n < 3 else 0.12):
            continue
        for m in ([1, 2, 3] if q else [1, 2, 3, 4]):
            if q and rnd.random() > 0.5:
                continue
            cut = rnd.choice(cuts + ["seed:%d" % rnd.randrange(10 ** 6)])
            api = "bulkwalk"
            r = rnd.random()
            if r < 0.06:
                api = "py.bulkwalk"
            S.append(dict(sc, bulk=m, api=api, cut=cut, proto="v2c" if rnd.random() > 0.04 else rnd.choice(W.PROTO_SAMPLE)))
    for sc in W.random_big(rnd, 200 if q else 2000, [1, 2, 3, 5, 10, 25, 50]):
        S.append(dict(sc, api="bulkwalk", cut=rnd.choice(cuts + ["seed:%d" % rnd.randrange(10 ** 6)]),
                      proto=rnd.choice(["v2c", "v2c", "v2c"] + W.PROTO_SAMPLE)))
    # volatile objects: every binding served carries another value (two roots answered with one instance under two values)
    for sc in scs:
        if len(sc["roots"]) >= 2 and rnd.random() < (0.05 if q else 0.2):
            S.append(dict(sc, bulk=rnd.choice([1, 2, 3, 4]), api="bulkwalk", cut=rnd.choice(cuts), proto="v2c", volatile=True))
    for vsc in (dict(db=[[2, 1], [2, 2], [3, 1]], roots=[[1], [2]]), dict(db=[[3, 1], [3, 2]], roots=[[3], [1], [2]])):
        for m in (1, 2, 3, 10):
            S.append(dict(vsc, bulk=m, api="bulkwalk", cut=rnd.choice(cuts), proto=rnd.choice(["v2c"] + W.PROTO_SAMPLE), volatile=True))
            S.append(dict(vsc, bulk=m, api="py.bulkwalk", cut="full", proto="v2c", volatile=True))
    # max-repetitions whose top bit falls on an octet boundary (128, 200, 255): an INTEGER like any other
    for m in (127, 128, 200, 255):
        S.append(dict(db=[[1, k] for k in range(1, 12)] + [[2, 1]], roots=[[1]], bulk=m, api="bulkwalk", cut="full", proto="v2c"))
        S.append(dict(db=[[1, k] for k in range(1, 6)] + [[2, 1], [2, 2]], roots=[[1], [2]], bulk=m, api="bulkwalk", cut="one_row", proto=rnd.choice(W.PROTO_SAMPLE)))
    # many roots in one call (a request with more than 100 repeaters is still an ordinary request)
    for nroots in (99, 100, 101, 130):
        manydb = [[k, j] for k in range(1, nroots + 1) for j in range(1, 1 + (k % 3))]
        for m in (1, 2, 5):
            S.append(dict(db=manydb, roots=[[k] for k in range(1, nroots + 1)], bulk=m, api="bulkwalk", cut="full", proto="v2c"))
    # the overshoot of a bulk response may run into objects the library knows by name (usmStats counters ...): ordinary objects for every level
    special = [[0, 1, 0]] + [[1, k, 0] for k in range(1, 7)] + [[2, 1, 0]]
    for pfx in ("usm", "sys", "snmpv2"):
        for proto in ["v2c"] + W.PROTO_SAMPLE:
            for roots in ([[0]], [[1]], [[0], [2]], [[1, 2], [0]]):
                for m in (1, 2, 3, 10):
                    S.append(dict(db=special, roots=roots, bulk=m, api="bulkwalk", cut=rnd.choice(cuts), proto=proto, pfx=pfx))
    # the GETNEXT walk of the same scenario is validated by the same monitor (C01); both are judged against
    # Strict/Opt of the database, so equality of the two result sets (modulo root instances) follows per scenario
    ctx.rule = ("TLC-enumerated (database, root list) scenarios x max-repetitions x agent truncation policy "
                "{full, one repetition, minus one binding, one row plus one, cut inside the first repetition, seeded prefix} through Client.bulkwalk / PyWrapper.bulkwalk; the universe placed over the usmStats / "
                "system / snmpV2 subtrees (overshoot into objects the library knows by name) for v2c and all v3 levels; "
                "the bulk result is judged against the same Strict/Opt sets as the GETNEXT walk; non-trivial = >= 2 requests and >= 1 instance")
    W.drive_and_judge(ctx, S)
    ctx.assumptions = ["conformant truncation = any non-empty prefix of the repetition matrix (RFC 3416 4.2.3), incl. one that ends inside the first repetition",
                       "equality with the GETNEXT walk is modulo instances whose OID equals a root (C01 accepts both)"]


def replay(ctx, path):
    import json
    W.drive_and_judge(ctx, [json.load(open(path))["trace"]["scenario"]])
