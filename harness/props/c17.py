"""C17 - SNMP application types keep their numeric and conversion semantics (spec/Values.tla).  DESIGN.md 6 / C17."""
import json, random
import drv_values as D

LEVEL = "exploration"


def run(ctx):
    q = ctx.quick
    rnd = random.Random(ctx.seed)
    E = []
    ints = set()
    for k in range(1, 18):
        for d in (-2, -1, 0, 1, 2):
            ints |= {2 ** (8 * k) + d, -(2 ** (8 * k)) + d, 2 ** (8 * k - 1) + d, 3 * 2 ** (8 * k) + d, -(2 ** (8 * k)) - 5 + d}
    ints |= {0, 1, -1, -42, 42, 2 ** 32 + 42, 2 ** 33 + 42, 2 ** 64 + 42, -2 ** 32 - 5, -2 ** 64 - 5, -(2 ** 65) + 7}
    ints |= {rnd.randrange(-2 ** 70, 2 ** 70) for _ in range(300 if q else 5000)}
    for n in sorted(ints):
        E.append(D.obs_counter("Counter", n))
        E.append(D.obs_counter("Counter64", n))
    # unsigned decode over the whole range, incl. the encodings without the leading zero octet that agents send
    for cls, width in (("Counter", 4), ("Gauge", 4), ("TimeTicks", 4), ("Counter64", 8)):
        vals = {0, 1, 127, 128, 255, 256, 2 ** (8 * width - 1) - 1, 2 ** (8 * width - 1), 2 ** (8 * width) - 1, 2 ** (8 * width) - 2}
        vals |= {rnd.randrange(2 ** (8 * width)) for _ in range(100 if q else 2000)}
        for v in sorted(vals):
            proper = v.to_bytes((v.bit_length() + 8) // 8 or 1, "big")
            E.append(D.obs_udecode(cls, proper))
            if v >= 2 ** (8 * width - 1):
                E.append(D.obs_udecode(cls, v.to_bytes(width, "big")))      # high bit set, no leading zero (GitHub issue 75 style)
            if v < 2 ** (8 * width):
                E.append(D.obs_roundtrip(cls, v))
    for v in sorted(i for i in ints if -2 ** 63 <= i < 2 ** 63):
        E.append(D.obs_roundtrip("Integer", v))
    # TimeTicks: dense prefix, boundaries, seeded samples up to 2^32-1, both directions
    dense = 20000 if q else 400000
    ticks = list(range(dense)) + [2 ** 32 - 1, 2 ** 32 - 2, 2 ** 31, 2 ** 31 - 1, D.TPD - 1, D.TPD, D.TPD + 1, 18890041]
    ticks += [rnd.randrange(2 ** 32) for _ in range(5000 if q else 100000)]
    for n in ticks:
        E.extend(D.obs_ticks(n))
    for _ in range(2000 if q else 50000):
        E.append(D.obs_delta(rnd.randrange(0, 497), rnd.randrange(0, 86400), rnd.randrange(0, 1000000)))
    # IpAddress boundaries and samples
    ips = [bytes(x) for x in ((0, 0, 0, 0), (255, 255, 255, 255), (127, 0, 0, 1), (10, 0, 0, 1), (192, 0, 2, 1), (128, 0, 0, 0), (0, 0, 0, 1), (1, 0, 0, 0))]
    ips += [bytes(rnd.randrange(256) for _ in range(4)) for _ in range(300 if q else 20000)]
    for ip in ips:
        E.append(D.obs_ip(ip))
    ctx.evaluations = len(E)
    T = [dict(scenario=dict(chunk=i // 500), events=E[i:i + 500]) for i in range(0, len(E), 500)]
    verdicts = ctx.validate("Trace_Values", T, chunk=60)
    distinct = {json.dumps(e, sort_keys=True) for e in E}
    ctx.extra["distinct_nontrivial"] = len(distinct)
    ctx.judge(T, verdicts, signature=lambda tr, v: dict(kind=tr["events"][v[1] - 1]["k"] if v[1] else ""))
    for tid, v in verdicts.items():
        if v[0] != "ok":
            for viol in ctx.violations:
                if viol["trace"] is T[tid - 1]:
                    viol["trace"] = dict(scenario=T[tid - 1]["scenario"], events=[T[tid - 1]["events"][v[1] - 1]])
    ctx.samples = [E[0], E[len(E) // 2], E[-1]]
    ctx.rule = ("observations of puresnmp.types judged by TLC with the reference definitions of Values.tla: Counter/Counter64 built from integers at and far "
                "outside every byte boundary up to 2^136 (both signs) and seeded samples; unsigned decode of every boundary value incl. high-bit encodings "
                "without the leading zero octet; every TimeTicks value in the dense prefix 0..%d plus boundaries and seeded samples up to 2^32-1 in both "
                "directions and round trip; random timedeltas at microsecond resolution; IpAddress boundaries and samples; encode/decode round trips "
                "read by the independent decoder; distinct = distinct observation") % dense
    ctx.assumptions = ["no state space: TLC acts as the evaluator of an executable reference definition over observations (level: exploration)",
                       "timedelta(days, seconds, microseconds) is constructed by the harness from integers, independently of the library"]


def replay(ctx, path):
    d = json.load(open(path))
    T = [d["trace"]]
    ctx.judge(T, ctx.validate("Trace_Values", T), signature=lambda tr, v: {})
