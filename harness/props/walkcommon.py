"""Shared by C01, C02, C03: model checking of Walk.tla, TLC scenario enumeration, replay, trace validation."""
import json, os, random
import tlc, drv_walk

INV_CONF = ["NoDup", "InsideRoots", "Inside", "Complete", "Ascending", "BulkEqualsGetNext", "Bounded", "NoReask", "OutcomeMode"]
INV_FAULTY = ["NoDup", "InsideRoots", "Bounded", "NoReask", "OutcomeMode"]
PINS = dict(PinFirstOrder=False, PinCollapse=False, PinNoProgress=False, PinFirstUnguarded=False, PinLenientSwallowsAll=False, ExchangeFaults='{"none"}', PartialFirst=False, PinPartialFirstLost=False, Volatile=False, PinValueOrder=False)
PROTO_SAMPLE = ["v3n", "v3a_md5", "v3a_sha", "v3p_md5", "v3p_sha"]


def consts(cand, rootc, maxroots, bulks, faulty, modes='{"strict"}', **pins):
    c = dict(Cand=("<-", cand), RootCand=("<-", rootc), MaxRoots=maxroots, BulkSizes=bulks, Faulty=faulty, ErrorModes=modes, FaultyRange=("<-", cand))
    c.update(PINS)
    c.update(pins)
    return c


def gen(ctx, kind):
    out = os.path.join(tlc.WORK, "gen_%s_%s_%s.json" % (ctx.pid, kind, ctx.tier))
    cfg = tlc.write_cfg("%s_gen" % ctx.pid)
    r = tlc.run("Gen_Walk", cfg, workers=1, env=dict(GEN_TIER=ctx.tier, GEN_OUT=out, GEN_KIND=kind), timeout=600)
    if r["rc"] != 0:
        raise tlc.TlcFailure("scenario generation failed: " + r["out"][-2000:])
    scs = json.load(open(out))
    os.remove(out)
    return scs


def random_big(rnd, n, bulk_choices):
    """seeded larger scenarios: 30-200 instances over 3-level OIDs, 1-5 disjoint roots"""
    out = []
    for _ in range(n):
        tops = rnd.sample(range(1, 30), rnd.randint(2, 8))
        db = set()
        for t in tops:
            for _ in range(rnd.randint(0, 25)):
                o = [t, rnd.randint(1, 40)]
                if rnd.random() < 0.5:
                    o.append(rnd.randint(1, 20))
                db.add(tuple(o))
            if rnd.random() < 0.2:
                db.add((t,))
        cand_roots = [[t] for t in tops] + [[rnd.randint(1, 30)] for _ in range(3)] + [[t, rnd.randint(1, 40)] for t in tops[:2]]
        rnd.shuffle(cand_roots)
        roots = []
        for r in cand_roots:
            if all(r[:len(q)] != q and q[:len(r)] != r for q in roots):
                roots.append(r)
            if len(roots) >= rnd.randint(1, 5):
                break
        out.append(dict(db=sorted(list(o) for o in db), roots=roots, bulk=rnd.choice(bulk_choices)))
    return out


def sig_walk(tr, v):
    sc = tr["scenario"]
    return dict(api=sc["api"], bulk=sc.get("bulk", 0) > 0, nroots=min(len(sc["roots"]), 2),
                sorted=sc["roots"] == sorted(sc["roots"]), faulty="f" in sc, errors=sc.get("errors", "strict"))


def nontrivial_walk(tr, v):
    # distinct scenario whose antecedent fired: at least two requests and at least one instance delivered
    if v[3] >= 2 and v[4] >= 1:
        sc = tr["scenario"]
        return json.dumps([sc.get("db"), sc.get("f"), sc["roots"], sc.get("bulk"), sc["api"], sc.get("cut"), sc.get("proto"), sc.get("errors")])
    return None


def drive_and_judge(ctx, scenarios, chunk=6000):
    traces = drv_walk.run_all(scenarios)
    ctx.evaluations += len(traces)
    verdicts = ctx.validate("Trace_Walk", traces, chunk=chunk)
    ctx.judge(traces, verdicts, signature=sig_walk, nontrivial=nontrivial_walk, drift_index=2)
    return traces, verdicts
