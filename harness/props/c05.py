"""C05 - every emitted datagram is the intended request under an independent decoder (spec/Ber.tla).  DESIGN.md 6 / C05."""
import asyncio, json, random
import drv_ber

LEVEL = "exploration"
REQIDS = [0, 1, 127, 128, 255, 256, 32767, 32768, 65535, 65536, 2 ** 24 - 1, 2 ** 24, 2 ** 31 - 1, 2 ** 31, 2 ** 32 - 1, 2 ** 32, 2 ** 32 + 5,
          1700000000, 4102444800, 2 ** 40, 2 ** 63 - 1]
SUBIDS = [0, 1, 127, 128, 16383, 16384, 2097151, 2097152, 2 ** 31 - 1, 2 ** 31, 2 ** 32 - 1]
STRLENS = [0, 1, 126, 127, 128, 255, 256, 300, 1000]
PROTOS = ["v1", "v2c", "v3n", "v3a_md5", "v3a_sha", "v3p_md5", "v3p_sha"]


def oid_lattice(rnd):
    out = [(1, 3, 6, 1, 2, 1, 1, 1, 0), (0, 0), (0, 39), (1, 0), (1, 39), (2, 0), (2, 47), (1, 3)]
    for s in SUBIDS:
        out.append((1, 3, s))
        out.append((1, 3, 6, s, 1))
        out.append((2, 40, s) if False else (2, 7, s, s))
    for n in (2, 3, 64, 127, 128):
        out.append(tuple([1, 3] + [rnd.choice(SUBIDS) for _ in range(n - 2)]))
    return out


def int_lattice():
    out = set()
    for k in range(1, 9):
        for d in (-2, -1, 0, 1):
            out.add(2 ** (8 * k - 1) + d)
            out.add(-(2 ** (8 * k - 1)) + d)
            out.add(2 ** (8 * k) + d)
    out |= {0, 1, -1, 127, 128, -128, -129}
    return sorted(out)


def value_lattice(rnd):
    vals = []
    for v in int_lattice():
        if -2 ** 63 <= v < 2 ** 63:
            vals.append(("Integer", v))
        if 0 <= v < 2 ** 32:
            vals += [("Counter", v), ("Gauge", v), ("TimeTicks", v)]
        if 0 <= v < 2 ** 64:
            vals.append(("Counter64", v))
    for n in STRLENS:
        vals.append(("OctetString", bytes(rnd.randrange(256) for _ in range(n))))
        vals.append(("Opaque", bytes(rnd.randrange(256) for _ in range(min(n, 300)))))
    # strings whose content looks like BER itself: a string is opaque to the codec, whatever it starts with
    for b in (b"0\x80", b"\x30\x06\x02\x01\x01\x04\x80A", b"\x30\x80\x00\x00", b"\x04\x80", b"\xa2\x80\x00", b"\x30\x82\xff\xff", b"\x30\x84\xff\xff\xff\xff",
              b"\x30", b"\x30\x81", b"\x80", b"\x30\x04" * 40, b"\x30\x26\x02\x01\x01\x04\x06public\xa2\x19\x02\x01\x01\x02\x01\x00\x02\x01\x000\x0e0\x0c\x06\x08+\x06\x01\x02\x01\x01\x01\x00\x05\x00",
              b"\x9f\x78\x04\x42\xf6\x00\x00", b"\x04\x07wrapped", b"\x02\x01\x05", b"\x30\x03\x02\x01\x05"):
        vals.append(("OctetString", b))
        vals.append(("Opaque", b))
    vals.append(("OctetString", b"\x00" * 5))
    vals.append(("OctetString", bytes(range(256))))
    for ip in ((0, 0, 0, 0), (255, 255, 255, 255), (127, 0, 0, 1), (10, 128, 255, 1)):
        vals.append(("IpAddress", bytes(ip)))
    vals.append(("Null", None))
    return vals


def cases(ctx):
    rnd = random.Random(ctx.seed)
    q = ctx.quick
    oids = oid_lattice(rnd)
    vals = value_lattice(rnd)
    C = []
    ops = ["get", "multiget", "getnext", "multigetnext", "set", "multiset", "bulkget", "walk", "bulkwalk"]
    for proto in PROTOS:
        for op in ops:
            if proto == "v1" and op in ("bulkget", "bulkwalk"):
                continue
            reps = (4 if q else 40)
            for _ in range(reps):
                n = 1 if op in ("get", "getnext", "set") else rnd.choice([1, 2, 3, 5, 30] if not q else [1, 2, 3])
                os_ = [rnd.choice(oids) for _ in range(n)]
                if op in ("multiset", "walk", "bulkwalk"):
                    os_ = list(dict.fromkeys(os_))
                if op in ("walk", "bulkwalk"):
                    # walk roots must be pairwise disjoint
                    keep = []
                    for o in os_:
                        if all(o[:len(p)] != p and p[:len(o)] != o for p in keep):
                            keep.append(o)
                    os_ = keep
                c = dict(proto=proto, op=op, oids=os_, reqid=rnd.choice(REQIDS), nr=0, mr=0)
                if op in ("set", "multiset"):
                    c["vals"] = [rnd.choice(vals) for _ in os_]
                if op == "bulkget":
                    c["nr"] = rnd.randint(0, len(os_))
                    c["mr"] = rnd.choice([0, 1, 10, 127, 128, 255, 256, 65535, 2 ** 31 - 1])
                if op == "bulkwalk":
                    c["mr"] = rnd.choice([1, 10, 127, 128, 1000])
                if proto in ("v1", "v2c"):
                    n_ = rnd.choice(STRLENS[:7])
                    c["community"] = rnd.choice(["public", "", "a" * n_, "".join(chr(rnd.randrange(32, 127)) for _ in range(n_))])
                else:
                    c["ctxname"] = rnd.choice([b"", b"ctx", bytes(rnd.randrange(256) for _ in range(rnd.choice([1, 31, 32, 127, 128])))])
                    c["engine"] = bytes([0x80, 0, 0x1f, 0x88, 4]) + bytes(rnd.randrange(256) for _ in range(rnd.choice([0, 1, 7, 8, 27])))
                    if rnd.random() < 0.3:
                        c["ctxengine"] = bytes(rnd.randrange(256) for _ in range(rnd.choice([5, 12, 32])))
                C.append(c)
    # every value of the lattice once through set, every request id once, every OID of the lattice once
    for v in vals:
        C.append(dict(proto=rnd.choice(PROTOS), op="set", oids=[rnd.choice(oids)], vals=[v], reqid=rnd.choice(REQIDS), nr=0, mr=0))
    for r in REQIDS:
        for op in ("get", "bulkget", "set", "getnext"):
            p = rnd.choice(PROTOS[1:])
            C.append(dict(proto=p, op=op, oids=[oids[0]], vals=[("Integer", 1)], reqid=r, nr=0, mr=3))
    for o in oids:
        C.append(dict(proto=rnd.choice(PROTOS), op="multiget", oids=[o, oids[0]], reqid=rnd.choice(REQIDS), nr=0, mr=0))
    # the pythonic wrapper emits the same requests (OIDs as strings, with and without a leading dot)
    for proto in ("v1", "v2c", "v3a_md5"):
        for op in ("get", "multiget", "getnext", "set", "multiset", "bulkget", "walk", "bulkwalk"):
            if proto == "v1" and op.startswith("bulk"):
                continue
            for dot in (False, True):
                os_ = [oids[0]] if op in ("get", "getnext", "set", "walk", "bulkwalk") else [oids[0], (1, 3, 6, 1, 2, 1, 2, 2, 1, 10, 1)]
                C.append(dict(proto=proto, op=op, py=True, dot=dot, oids=os_, vals=[rnd.choice(vals) for _ in os_], reqid=rnd.choice(REQIDS), nr=1 if op == "bulkget" else 0,
                              mr=5 if op.startswith("bulk") else 0))
    # credentials switched after construction: the datagram follows the credentials in force
    for ini in ("v1", "v2c", "v3n", "v3a_md5"):
        for proto in ("v1", "v2c", "v3n", "v3p_sha"):
            if ini != proto:
                for warm in (False, True):
                    C.append(dict(proto=proto, initial=ini, warm=warm, op=rnd.choice(["get", "set", "getnext"]), oids=[oids[0]], vals=[("Integer", 7)],
                                  reqid=1700000000, nr=0, mr=0, community="second"))
    # ... also within one credential family (the message-processing model is kept): permanently and for the length of a block
    for fam, second in (("v1", "v1"), ("v2c", "v2c"), ("v3a_md5", "v3a_sha"), ("v3p_md5", "v3a_md5"), ("v3n", "v3p_sha")):
        for warm in (False, True):
            for via in ("configure", "reconfigure"):
                for op in ("get", "set", "bulkget" if fam != "v1" else "getnext"):
                    C.append(dict(proto=second, initial=fam, warm=warm, via=via, op=op, oids=[oids[0]], vals=[("Integer", 7)],
                                  reqid=1700000000, nr=0, mr=2, community="second"))
    # engine ids with runs of zero octets (as long as and longer than the digest placeholder), of minimal and maximal size
    engines = [bytes([0x80, 0, 2, 0xb8, 5]) + b"\0" * 12, b"\0" * 12, bytes([0x80, 0, 0x1f, 0x88, 4]) + b"\0" * 27, b"\0" * 5, b"\0" * 32,
               bytes([0x80, 0, 0x1f, 0x88, 4]) + b"\0" * 11 + b"\x01" + b"\0" * 13, b"\xff" * 32, bytes(range(5, 37))]
    for proto in PROTOS[2:]:
        for e in engines:
            for op in (("get", "set", "bulkget") if not q else (rnd.choice(["get", "set", "bulkget"]),)):
                C.append(dict(proto=proto, op=op, oids=[oids[0]], vals=[rnd.choice(vals)], reqid=rnd.choice(REQIDS), nr=0, mr=3, engine=e,
                              ctxname=rnd.choice([b"", b"\0" * 12])))
    # two / three bulk walks with DIFFERENT max-repetitions in progress on one client, consumed alternately: every datagram of every walk
    # carries the max-repetitions given for that walk (a schedule of API calls, not a new input: the first request alone cannot tell)
    for proto in PROTOS[1:]:
        for mrs, sizes in (([2, 5], [5, 7]), ([1, 10], [3, 3]), ([10, 1], [3, 3]), ([3, 2, 7], [6, 5, 4]), ([4, 4], [9, 2])):
            C.append(dict(proto=proto, op="bulkwalk2", oids=[(1, 3, 6, 1, 2, 1, 10 + i) for i in range(len(mrs))], mrs=mrs, sizes=sizes,
                          reqid=rnd.choice(REQIDS), nr=0, mr=0))
    # the same requests with the library's loggers at DEBUG (a configuration, not an input): the datagram may not change
    for c in rnd.sample(C, 60 if q else 800):
        C.append(dict(c, debuglog=True))
    return C


def sig(tr, v):
    sc = tr["scenario"]
    return dict(op=sc["op"], version="v3" if sc["proto"].startswith("v3") else sc["proto"])


def run(ctx):
    C = cases(ctx)

    async def main():
        T = []
        for c in C:
            ev, err = await drv_ber.emit_case(c)
            sc = dict(proto=c["proto"], op=c["op"], reqid=str(c["reqid"]), n=len(c["oids"]), err=err or "")
            for e in ev:
                T.append(dict(scenario=sc, events=[e]))
        return T
    T = asyncio.run(main())
    ctx.evaluations += len(T)
    verdicts = ctx.validate("Trace_Ber", T, chunk=3000)
    ctx.judge(T, verdicts, signature=sig, nontrivial=lambda tr, v: json.dumps(tr["events"][0]["raw"]))
    ctx.rule = ("every API operation (get, multiget, getnext, multigetnext, set, multiset, bulkget, first request of walk/bulkwalk, every request of two / three bulk walks "
                "with different max-repetitions consumed alternately on one client, v3 discovery probe) "
                "x v1/v2c/v3 levels with arguments from the boundary lattice (request ids 0..2^63-1 incl. 2^31, 2^32; sub-identifiers up to 2^32-1; 2..128 arcs; "
                "every SET value type at and around every byte boundary; strings of length 0..1000; communities, context names, engine ids incl. runs of >= 12 zero octets "
                "and the 5 / 32 octet sizes), histories (credentials changed by configure() or inside a reconfigure() block, across and within a credential family, before "
                "and after a first request) and seeded "
                "combinations; each emitted datagram is decoded by Ber.tla under TLC and compared with the intended request; distinct = distinct datagram bytes")
    ctx.assumptions = ["BER, not DER: the long form 81 7f for length 127 is well-formed", "OIDs need >= 2 arcs and a first octet < 128 (x690 limit)",
                       "for privacy users the scoped PDU is decrypted by the reference agent's own stream transform before TLC decodes it"]


def replay(ctx, path):
    d = json.load(open(path))
    T = [d["trace"]]
    ctx.judge(T, ctx.validate("Trace_Ber", T), signature=sig)
