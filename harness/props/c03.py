"""C03 - walks terminate and never re-request, whatever the agent answers.  DESIGN.md section 6 / C03."""
import random
from props import walkcommon as W

LEVEL = "model_checking"


def run(ctx):
    q = ctx.quick
    ctx.model_check("MC_Walk", "faulty", constants=W.consts("CandFQ" if q else "CandFT", "RootF", 2, "{0,1,2}", True, '{"strict","warn"}'),
                    invariants=W.INV_FAULTY, constraints=["NreqCap"], must_cover=["Round", "Done"], timeout=3000)
    ctx.model_check("MC_Walk", "faulty_terminates", constants=W.consts("CandFQ", "RootF", 2, "{0,1,2}", True, '{"strict","warn"}'),
                    properties=["Terminates"], must_cover=["Round"], timeout=3000)    # liveness: every walk ends whatever F is
    if not q:
        ctx.model_check("MC_Walk", "selftest_noprogress", constants=W.consts("CandFQ", "RootF", 2, "{1,2}", True, '{"strict"}', PinNoProgress=True),
                        invariants=W.INV_FAULTY, constraints=["NreqCap"], expect=["NoReask", "Bounded"])
    # nested universe: the agent may answer with the object above the requested instance (a proper prefix of the requested OID) or the walk root itself
    ctx.model_check("MC_Walk", "faulty_nested", constants=W.consts("CandFN", "RootF", 2, "{0,1,2}", True, '{"strict","warn"}', FaultyRange=("<-", "FRangeN")),
                    invariants=W.INV_FAULTY, constraints=["NreqCap"], must_cover=["Round", "Done"], timeout=3000)
    rnd = random.Random(ctx.seed)
    scs = W.gen(ctx, "faulty")
    nested = W.gen(ctx, "faulty_nested")
    S = []
    for sc in nested:
        for b in (0, 1, 2):
            if rnd.random() > (0.05 if q else 0.3):
                continue
            n = len(sc["roots"])
            if b == 0:
                api = rnd.choice(["walk", "multiwalk", "table"]) if n == 1 else "multiwalk"
                errors = rnd.choice(["strict", "warn"]) if api != "table" else "strict"
            else:
                api = rnd.choice(["bulkwalk", "multiwalk_fetcher", "bulktable"]) if n == 1 else rnd.choice(["bulkwalk", "multiwalk_fetcher"])
                errors = rnd.choice(["strict", "warn"]) if api == "multiwalk_fetcher" else "strict"
            S.append(dict(sc, bulk=b, api=api, errors=errors, proto="v2c", budget=40, deep=(api == "bulktable")))
    for sc in scs:
        n = len(sc["roots"])
        for b in (0, 1, 2):
            if q and rnd.random() > 0.4:
                continue
            if b == 0:
                api = rnd.choice(["walk", "multiwalk", "table"]) if n == 1 else "multiwalk"
                errors = rnd.choice(["strict", "warn"]) if api != "table" else "strict"
            else:
                api = rnd.choice(["bulkwalk", "multiwalk_fetcher", "bulktable"]) if n == 1 else rnd.choice(["bulkwalk", "multiwalk_fetcher"])
                errors = rnd.choice(["strict", "warn"]) if api == "multiwalk_fetcher" else "strict"     # the GETBULK fetcher handed to multiwalk: lenient bulk walks
            S.append(dict(sc, bulk=b, api=api, errors=errors, proto="v2c", budget=40, deep=(api == "bulktable")))
    ctx.rule = ("every stateless faulty agent F: requested OID -> OID | endOfMibView over the %d-OID universe x root lists x "
                "{GETNEXT, bulk 1, bulk 2} x {strict, lenient (GETNEXT walks and multiwalk with the GETBULK fetcher)}, plus every F over a nested universe "
                "{1.1, 1.1.1, 2.1} (roots 1, 2) whose answers may be proper prefixes of the requested OID or the root itself (sampled), applied reactively by the reference agent under a request budget; "
                "non-trivial = >= 2 requests and >= 1 instance") % (5 if q else 6)
    ctx.exhaustive = not q
    W.drive_and_judge(ctx, S)
    ctx.assumptions = ["request budget: requests <= distinct OIDs revealed + 2",
                       "strict mode must raise FaultySNMPImplementation when a GETNEXT binding before any endOfMibView does not advance; "
                       "bulk walks are judged by termination and no re-request"]


def replay(ctx, path):
    import json
    W.drive_and_judge(ctx, [json.load(open(path))["trace"]["scenario"]])
