"""C01 - walk exactness.  DESIGN.md section 6 / C01."""
import random
from props import walkcommon as W
import drv_walk

LEVEL = "model_checking"


def run(ctx):
    q = ctx.quick
    # 1. TLC decides the design: every db x every root list (any order) x GETNEXT fetcher
    ctx.model_check("MC_Walk", "getnext", constants=W.consts("CandQ" if q else "CandT", "RootC", 3, "{0}", False),
                    invariants=W.INV_CONF, constraints=["NreqCap"], must_cover=["Round", "Done"])
    ctx.model_check("MC_Walk", "getnext_terminates", constants=W.consts("CandQ" if q else "CandT", "RootC", 2 if q else 3, "{0}", False),
                    properties=["Terminates"], must_cover=["Round"])    # liveness under weak fairness, no state constraint
    # the agent's objects change while it answers: two roots may be answered with one instance under two values
    ctx.model_check("MC_Walk", "getnext_volatile", constants=W.consts("CandQ", "RootC", 2 if q else 3, "{0,2}", False, Volatile=True),
                    invariants=W.INV_CONF, constraints=["NreqCap"], must_cover=["Round"])
    if not q:
        # self-test: the pinned ordering of the per-root groups by (OID, value) must be refuted (F28)
        ctx.model_check("MC_Walk", "selftest_value_order", constants=W.consts("CandQ", "RootC", 2, "{0,2}", False, Volatile=True, PinValueOrder=True),
                        invariants=W.INV_CONF, constraints=["NreqCap"], expect=["Complete"])
        # self-test: the pinned first request in caller order must be refuted (vacuity guard for Complete)
        ctx.model_check("MC_Walk", "selftest_first_order", constants=W.consts("CandQ", "RootC", 3, "{0}", False, PinFirstOrder=True),
                        invariants=W.INV_CONF, constraints=["NreqCap"], expect=["Complete"])
    # 2. TLC enumerates the scenarios (= initial states of the model); replay into the real client
    rnd = random.Random(ctx.seed)
    scs = W.gen(ctx, "conformant")
    S = []
    for i, sc in enumerate(scs):
        n = len(sc["roots"])
        if q and n == 3 and rnd.random() > 0.25:
            continue
        apis = ["multiwalk"] + (["walk"] if n == 1 else [])
        for api in apis:
            S.append(dict(sc, bulk=0, api=api, proto="v2c"))
        if rnd.random() < (0.08 if q else 0.25):
            S.append(dict(sc, bulk=0, api="py.multiwalk" if n > 1 or rnd.random() < 0.5 else "py.walk", proto="v2c"))
        if rnd.random() < (0.03 if q else 0.12):
            S.append(dict(sc, bulk=0, api="multiwalk", proto=rnd.choice(W.PROTO_SAMPLE)))
        if rnd.random() < 0.3:
            # bulk walks are walks too (their equality with the GETNEXT walk is C02's subject)
            S.append(dict(sc, bulk=rnd.choice([1, 2, 3, 5]), api="bulkwalk", cut=rnd.choice(list(drv_walk.CUTS)), proto="v2c"))
    # volatile objects (counters, sysUpTime): every binding the agent serves carries another value, also two bindings of one instance in
    # one response - e.g. an empty subtree next to a populated one: both are answered with the first instance of the second
    VOL = [dict(db=[[2, 1], [2, 2], [3, 1]], roots=[[1], [2]]), dict(db=[[2, 1]], roots=[[2], [1]]), dict(db=[[3, 1], [3, 2]], roots=[[1], [2], [3]]),
           dict(db=[[1, 1], [3, 1], [3, 2]], roots=[[1], [2], [3]]), dict(db=[[1, 1, 1], [1, 3, 1]], roots=[[1, 2], [1, 3], [1, 1]])]
    for sc in VOL:
        for proto in ["v2c"] + ([rnd.choice(W.PROTO_SAMPLE)] if q else W.PROTO_SAMPLE):
            S.append(dict(sc, bulk=0, api="multiwalk", proto=proto, volatile=True))
            S.append(dict(sc, bulk=0, api="py.multiwalk", proto=proto, volatile=True))
            for m in (1, 2, 5):
                S.append(dict(sc, bulk=m, api="bulkwalk", cut=rnd.choice(list(drv_walk.CUTS)), proto=proto, volatile=True))
    for sc in scs:
        if len(sc["roots"]) >= 2 and rnd.random() < (0.04 if q else 0.2):
            S.append(dict(sc, bulk=0, api="multiwalk", proto="v2c", volatile=True))
            S.append(dict(sc, bulk=rnd.choice([1, 2, 3]), api="bulkwalk", cut=rnd.choice(list(drv_walk.CUTS)), proto="v2c", volatile=True))
    for sc in W.random_big(rnd, 150 if q else 1500, [0]):
        S.append(dict(sc, api="multiwalk" if len(sc["roots"]) > 1 else rnd.choice(["walk", "multiwalk"]), proto=rnd.choice(["v2c", "v2c"] + W.PROTO_SAMPLE)))
    for sc in W.random_big(rnd, 80 if q else 800, [2, 3, 4, 7, 25]):
        # larger bulk walks: subtrees of very different sizes are exhausted in different rounds
        S.append(dict(sc, api="bulkwalk", cut=rnd.choice(list(drv_walk.CUTS)), proto=rnd.choice(["v2c", "v2c", "v2c"] + W.PROTO_SAMPLE)))
    # many roots in one call (a request with more than 100 repeaters is still an ordinary request)
    for nroots in (99, 100, 101, 130):
        manydb = [[k, j] for k in range(1, nroots + 1) for j in range(1, 1 + (k % 3))]
        for m in (1, 2, 5):
            S.append(dict(db=manydb, roots=[[k] for k in range(1, nroots + 1)], bulk=m, api="bulkwalk", cut="full", proto="v2c"))
        S.append(dict(db=manydb, roots=[[k] for k in range(1, nroots + 1)], bulk=0, api="multiwalk", proto="v2c"))
    # objects the library knows by name are ordinary MIB objects: the same walks with the universe placed over the usmStats counters
    # (1.3.6.1.6.3.15.1.1.k.0), system and snmpV2 subtrees, over every protocol level
    special = [[0, 1, 0]] + [[1, k, 0] for k in range(1, 7)] + [[2, 1, 0]]
    for pfx in ("usm", "sys", "snmpv2"):
        for proto in ["v2c"] + W.PROTO_SAMPLE:
            for roots in ([[1]], [[0]], [[0], [1]], [[1], [2]], [[1, 4]]):
                S.append(dict(db=special, roots=roots, bulk=0, api="multiwalk" if len(roots) > 1 else "walk", proto=proto, pfx=pfx))
                S.append(dict(db=special, roots=roots, bulk=rnd.choice([1, 2, 3, 10]), api="bulkwalk", cut="full", proto=proto, pfx=pfx))
    ctx.rule = ("scenarios = TLC-enumerated initial states of Walk.tla (every database over the %d-instance universe x every list of 1..3 "
                "pairwise disjoint roots in every order%s) replayed through Client.walk/multiwalk, PyWrapper, v2c and sampled v3 levels, "
                "plus seeded random larger databases (30-200 instances, 1-5 roots) walked by GETNEXT and by GETBULK with repetitions 2..25; the universe placed over the usmStats / system / snmpV2 subtrees for v2c and all v3 levels; agents whose objects change with every binding served (volatile); non-trivial = distinct scenario with >= 2 requests and >= 1 delivered instance") % (
                   7 if q else 9, "; 3-root lists sampled 1/4 in quick" if q else "")
    ctx.exhaustive = not q
    W.drive_and_judge(ctx, S)
    ctx.assumptions = ["agent = reference agent (harness/refagent.py), every answer re-checked against spec/Agent.tla by the monitor",
                       "v1 is outside the property", "values are injective tokens of the OID, or (volatile scenarios) differ in every binding served"]


def replay(ctx, path):
    import json
    d = json.load(open(path))
    W.drive_and_judge(ctx, [d["trace"]["scenario"]])
