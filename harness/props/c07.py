"""C07 - only the response to the request actually sent is ever returned.  DESIGN.md 6 / C07."""
import itertools, random
from props import opscommon as O

LEVEL = "model_checking"


def run(ctx):
    q = ctx.quick
    ctx.model_check("MC_Ops", "clock", constants=dict(O.BASE, Perturbs=("<-", "PertId"), MaxTicks=2 if q else 3, MaxLen=1 if q else 2),
                    invariants=O.INV_C07, must_cover=["Tick", "Build", "AgentReply", "Decode"])
    if not q:
        ctx.model_check("MC_Ops", "selftest_second_read", constants=dict(O.BASE, Perturbs=("<-", "PertId"), MaxTicks=2, MaxLen=1, PinSecondRead=True),
                        invariants=O.INV_C07, expect=["Soundness", "Completeness"])
    rnd = random.Random(ctx.seed)
    S = []
    patterns = [list(p) for k in (1, 2, 3) for p in itertools.product([0, 1], repeat=k)] + [[86400], [1, 100000]]
    db = O.dbs(3)[-1]
    for op in O.OPS:
        for proto in O.PROTOS:
            if op == "bulkget" and proto == "v1":
                continue
            for pert in ["none", "id_plus", "id_minus", "id_arb", "id_p32", "id_m32", "id_neg", "id_p64", "wrong_comm", "wrong_ver"]:
                if pert in ("wrong_comm", "wrong_ver") and proto.startswith("v3"):
                    continue
                for pat in (patterns if not q else rnd.sample(patterns, 5)):
                    oids = [[1, 1]] if op in O.SINGLE else [[1, 1], [1, 2]]
                    sc = dict(op=op, oids=oids, db=db, proto=proto, perturb=pert, ticks=pat, nr=0, mr=0,
                              t0=rnd.choice([1000, 2 ** 31 - 5, 1700000000]))
                    if pert == "wrong_comm":
                        sc["wrong_comm"] = rnd.choice(["private", "publi", "", "PUBLIC", "public ", "ublic", "p"])
                    if op == "bulkget":
                        sc["nr"], sc["mr"] = 1, 2
                    if op in ("set", "multiset"):
                        sc["setvals"] = O.setvals(rnd, oids)
                    S.append(sc)
    # the discovery exchange's message id (v3)
    for proto in O.PROTOS[2:]:
        for kind in ("echo", "plus1", "minus1"):
            for pat in ([0], [1], [1, 0], [0, 1]):
                S.append(dict(op="get", oids=[[1, 1]], db=db, proto=proto, disco=kind, ticks=pat, nr=0, mr=0))
    ctx.rule = ("every operation x v1/v2c/v3 levels x reply kind {echo, id+1, id-1, arbitrary id, id+-2^32, id+2^64, -id, other community (incl. prefixes / case variants), "
                "other version} x clock patterns (increment per read in {0,1}^k, k<=3, and large jumps; start values incl. 2^31-5) applied reactively to "
                "however many reads the code performs; the v3 discovery exchange with matching / mismatching msgID; every request inside walks "
                "under a ticking clock; non-trivial = accepted trace of a distinct scenario")
    ctx.exhaustive = not q
    O.drive_and_judge(ctx, S)
    # every request inside walks, under a clock that ticks at every read
    W = []
    for proto in ["v2c", "v1", "v3a_md5", "v3p_sha"]:
        for api, bulk in [("walk", 0), ("multiwalk", 0), ("bulkwalk", 2), ("table", 0), ("bulktable", 2)]:
            if proto == "v1" and bulk:
                continue
            for pat in ([1], [0], [3]):
                roots = [[1]] if api != "multiwalk" else [[1], [2]]
                W.append(dict(db=[[1, 1, 1], [1, 1, 2], [1, 2, 1], [2, 1, 1], [3, 1, 1]], roots=roots, bulk=bulk, api=api, proto=proto, ticks=pat))
    O.drive_walks(ctx, W)
    ctx.assumptions = ["request-ids travel as plain integers (the clock's values); id mismatch combined with a non-zero error-status may surface as either exception"]


def replay(ctx, path):
    import json
    sc = json.load(open(path))["trace"]["scenario"]
    (O.drive_walks if "roots" in sc else O.drive_and_judge)(ctx, [sc])
