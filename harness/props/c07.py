"""C07 - only the response to the request actually sent is ever returned.  DESIGN.md 6 / C07."""
import itertools, random
from props import opscommon as O

LEVEL = "model_checking"


def run(ctx):
    q = ctx.quick
    ctx.model_check("MC_Ops", "clock", constants=dict(O.BASE, Perturbs=("<-", "PertId"), MaxTicks=2 if q else 3, MaxLen=1 if q else 2, IdErrStatuses="{0, 2, 5}"),
                    invariants=O.INV_C07, must_cover=["Tick", "Build", "AgentReply", "Decode"])
    if not q:
        ctx.model_check("MC_Ops", "selftest_second_read", constants=dict(O.BASE, Perturbs=("<-", "PertId"), MaxTicks=2, MaxLen=1, PinSecondRead=True),
                        invariants=O.INV_C07, expect=["Soundness", "Completeness"])
        ctx.model_check("MC_Ops", "selftest_v1_err_before_community", constants=dict(O.BASE, Perturbs=("<-", "PertForeign"), MaxTicks=0, MaxLen=1, PinV1ErrBeforeCommunity=True,
                                                                                     IdErrStatuses="{0, 2, 5}"),
                        invariants=O.INV_C07, expect=["CommunityVersionRefused"])
        ctx.model_check("MC_Ops", "selftest_err_before_id", constants=dict(O.BASE, Perturbs=("<-", "PertId"), MaxTicks=1, MaxLen=1, PinErrBeforeId=True,
                                                                           IdErrStatuses="{0, 2, 5}"),
                        invariants=O.INV_C07, expect=["Rejects", "WalkEndSound"])
    rnd = random.Random(ctx.seed)
    S = []
    patterns = [list(p) for k in (1, 2, 3) for p in itertools.product([0, 1], repeat=k)] + [[86400], [1, 100000]]
    db = O.dbs(3)[-1]
    for op in O.OPS:
        for proto in O.PROTOS:
            if op == "bulkget" and proto == "v1":
                continue
            for pert in ["none", "id_plus", "id_minus", "id_arb", "id_p32", "id_m32", "id_neg", "id_p64", "id_maxint", "id_zero", "id_minus1", "id_minint", "wrong_comm", "wrong_ver"]:
                if pert in ("wrong_comm", "wrong_ver") and proto.startswith("v3"):
                    continue
                for pat in (patterns if not q else rnd.sample(patterns, 5)):
                    oids = [[1, 1]] if op in O.SINGLE else [[1, 1], [1, 2]]
                    sc = dict(op=op, oids=oids, db=db, proto=proto, perturb=pert, ticks=pat, nr=0, mr=0,
                              t0=rnd.choice([1000, 2 ** 31 - 5, 1700000000, 2 ** 31, 2 ** 31 + 9, 2 ** 32 + 3]))
                    if pert in ("wrong_comm", "wrong_ver") and rnd.random() < 0.5:
                        sc["es"], sc["ei"] = rnd.choice([2, 2, 5, 17]), rnd.choice([0, 1])
                    if pert.startswith("id_") and rnd.random() < 0.5:
                        sc["es"], sc["ei"] = rnd.choice([2, 2, 5, 1, 17, 19, 42, 255, -1]), rnd.choice([0, 1])      # a foreign error response is still a foreign response
                    if pert == "wrong_comm":
                        sc["wrong_comm"] = rnd.choice(["private", "publi", "", "PUBLIC", "public ", "ublic", "p"])
                    if op == "bulkget":
                        sc["nr"], sc["mr"] = 1, 2
                    if op in ("set", "multiset"):
                        sc["setvals"] = O.setvals(rnd, oids)
                    S.append(sc)
    # the discovery exchange's message id (v3)
    for proto in O.PROTOS[2:]:
        for kind in ("echo", "plus1", "minus1"):
            for pat in ([0], [1], [1, 0], [0, 1]):
                S.append(dict(op="get", oids=[[1, 1]], db=db, proto=proto, disco=kind, ticks=pat, nr=0, mr=0))
    # history: the client talked under another community of the same family before it was (re)configured
    for proto in ("v1", "v2c"):
        for op in O.OPS:
            if op == "bulkget" and proto == "v1":
                continue
            for how in ("configure", "block"):
                for pert in ("none", "wrong_comm"):
                    oids = [[1, 1]] if op in O.SINGLE else [[1, 1], [1, 2]]
                    sc = dict(op=op, oids=oids, db=db, proto=proto, perturb=pert, ticks=[1], nr=0, mr=0, recomm=how)
                    if pert == "wrong_comm":
                        sc["wrong_comm"] = "first"          # the community that WAS right before the change
                    if op == "bulkget":
                        sc["nr"], sc["mr"] = 1, 2
                    if op in ("set", "multiset"):
                        sc["setvals"] = O.setvals(rnd, oids)
                    S.append(sc)
    # the agent is replaced between discovery and the request (unknownEngineID Report), then answers with a foreign / the right id
    for proto in O.PROTOS[2:]:
        for op in ("get", "getnext", "multiget", "set", "bulkget"):
            for pert in ("none", "id_plus", "id_arb"):
                oids = [[1, 1]] if op in O.SINGLE else [[1, 1], [1, 2]]
                sc = dict(op=op, oids=oids, db=db, proto=proto, perturb=pert, ticks=[1], nr=0, mr=0, engine_change=True)
                if op == "bulkget":
                    sc["nr"], sc["mr"] = 1, 2
                if op == "set":
                    sc["setvals"] = O.setvals(rnd, oids)
                S.append(sc)
    # two operations in flight on one client, the clock advancing in between: each answer is checked against its own request
    for proto in ["v2c", "v1", "v3n", "v3a_md5", "v3p_sha"]:
        for opA, opB in itertools.product(["get", "getnext", "multiget"], repeat=2):
            for pert in ("none", "swap"):
                for dt in (1, 0, 1000):
                    if pert == "swap" and dt == 0:
                        continue            # equal ids: nothing to swap
                    S.append(dict(op=opA, oids=[[1, 1]] if opA != "multiget" else [[1, 1], [1, 2]], opB=opB, oidsB=[[2, 1]] if opB != "multiget" else [[2, 1], [1, 2]],
                                  db=db, proto=proto, perturb=pert, dt=dt, nr=0, mr=0, t0=rnd.choice([1000, 2 ** 31 - 1])))
    ctx.rule = ("every operation x v1/v2c/v3 levels x reply kind {echo, id+1, id-1, arbitrary id, id+-2^32, id+2^64, -id, 2^31-1, 0, -1, -2^31, other community (incl. prefixes / case variants), "
                "other version} x clock patterns (increment per read in {0,1}^k, k<=3, and large jumps; start values incl. 2^31-5) applied reactively to "
                "however many reads the code performs; the v3 discovery exchange with matching / mismatching msgID; every request inside walks "
                "under a ticking clock; non-trivial = accepted trace of a distinct scenario")
    ctx.exhaustive = not q
    O.drive_and_judge(ctx, S)
    # every request inside walks, under a clock that ticks at every read
    W = []
    for proto in ["v2c", "v1", "v3a_md5", "v3p_sha"]:
        for api, bulk in [("walk", 0), ("multiwalk", 0), ("bulkwalk", 2), ("table", 0), ("bulktable", 2)]:
            if proto == "v1" and bulk:
                continue
            for pat in ([1], [0], [3]):
                roots = [[1]] if api != "multiwalk" else [[1], [2]]
                W.append(dict(db=[[1, 1, 1], [1, 1, 2], [1, 2, 1], [2, 1, 1], [3, 1, 1]], roots=roots, bulk=bulk, api=api, proto=proto, ticks=pat))
            # an error response of another community / version in the middle of the walk
            if not proto.startswith("v3"):
                for es in (2, 5):
                    for foreign in ("comm", "ver"):
                        roots = [[1]] if api != "multiwalk" else [[1], [2]]
                        W.append(dict(db=[[1, 1, 1], [1, 1, 2], [1, 2, 1], [2, 1, 1], [3, 1, 1]], roots=roots, bulk=1 if bulk else 0, api=api, proto=proto, ticks=[1],
                                      err=dict(at=rnd.choice([1, 2]), es=es, ei=1, foreign=foreign)))
            # a plain response with a foreign request-id in the middle of the walk, strict and lenient (lenient forgives non-increasing OIDs only)
            for errors in (("strict", "warn") if api in ("walk", "multiwalk") else ("strict",)):
                for at in (1, 2):
                    roots = [[1]] if api != "multiwalk" else [[1], [2]]
                    W.append(dict(db=[[1, 1, 1], [1, 1, 2], [1, 2, 1], [2, 1, 1], [3, 1, 1]], roots=roots, bulk=1 if bulk else 0, api=api, proto=proto, ticks=[1], errors=errors,
                                  idonly=dict(at=at, delta=rnd.choice([1, -1, 1000]))))
            # an error response with a foreign request-id in the middle of the walk (noSuchName would pass for the end of the subtree)
            for es in (2, 5):
                for at in (1, 2):
                    roots = [[1]] if api != "multiwalk" else [[1], [2]]
                    W.append(dict(db=[[1, 1, 1], [1, 1, 2], [1, 2, 1], [2, 1, 1], [3, 1, 1]], roots=roots, bulk=1 if bulk else 0, api=api, proto=proto, ticks=[1],
                                  err=dict(at=at, es=es, ei=1, iddelta=rnd.choice([1, -1, 77]))))
    O.drive_walks(ctx, W)
    ctx.assumptions = ["request-ids travel as plain integers (the clock's values); id mismatch combined with a non-zero error-status may surface as either exception"]


def replay(ctx, path):
    import json
    sc = json.load(open(path))["trace"]["scenario"]
    (O.drive_walks if "roots" in sc else O.drive_and_judge)(ctx, [sc])
