"""C09 - USM: no unauthenticated, altered or downgraded response is ever accepted.  DESIGN.md 6 / C09."""
import json, random
from props import usmcommon as U
import drv_atk

LEVEL = "model_checking"
OPS = ["get", "getnext", "multiget", "set", "bulkget", "walk", "walk_warn", "bulkwalk"]


def sig(tr, v):
    sc = tr["scenario"]
    return dict(level=sc["level"], attack=sc["attack"], op=sc["op"])


def run(ctx):
    q = ctx.quick
    ctx.model_check("Usm", "attacker", constants=dict(U.PINS, Attack=True), invariants=U.INV_C09, must_cover=["Deliver", "Decode"], timeout=2400)
    if not q:
        ctx.model_check("Usm", "selftest_auth_flag_trusted", constants=dict(U.PINS, Attack=True, PinAuthFlagTrusted=True), invariants=U.INV_C09,
                        expect=["NoForgery", "ReportIsError"], timeout=2400)
        ctx.model_check("Usm", "selftest_lazy_error_first", constants=dict(U.PINS, Attack=True, PinLazyErrorFirst=True), invariants=U.INV_C09,
                        expect=["NoForgery"], timeout=2400)
    rnd = random.Random(ctx.seed)
    fams = []
    for level in ("auth", "authpriv"):
        for h in ("md5", "sha1"):
            for op in OPS:
                nbits = drv_atk.authentic_bits(level, h, op)
                if q:
                    bits = sorted(set(rnd.sample(range(nbits), min(nbits, 140)) + list(range(0, 16))))      # header octets always, the rest sampled
                else:
                    bits = list(range(nbits))                                                                   # every single-bit flip at every position
                fams.append((level, h, op, list(drv_atk.STRUCT) + [("bitflip", b) for b in bits], False))
            fams.append((level, h, "get", ["digest_into_zero_run", "zero_digest", "swap_pdu_keep_mac"], True))
            # the forgery arrives while another request of the same client is in flight, right after an authentic response was processed
            fams.append((level, h, "overlap", [a for a in drv_atk.STRUCT if a not in ("digest_into_zero_run", "truncate_tail") and not a.startswith("disco_")], False))
    T = drv_atk.run_families(fams)
    ctx.evaluations += len(T)
    verdicts = ctx.validate("Trace_UsmAtk", T, chunk=4000, constants=dict(U.PINS, Attack=True), spec="TSpec")
    ctx.judge(T, verdicts, signature=sig, nontrivial=lambda tr, v: json.dumps(tr["scenario"]) if tr["events"][0]["ret"]["kind"] == "exc" else None, drift_index=2)
    ctx.rule = ("for MD5 / SHA-1 x authNoPriv / authPriv x {get, getnext, multiget, set, bulkget, walk (strict and lenient), bulkwalk}: %s of the authentic response plus %d structural "
                "forgeries (flags 0/1/2/4/6 against the credentials, empty / short / zero / garbage digest, other user, other engine id, wrong localisation, "
                "plaintext under privacy credentials, ciphertext without the flag, Reports with arbitrary or usmStats bindings, unauthenticated Responses / Reports whose PDU carries "
                "error-status 2 or 5 (noSuchName is what ends a walk), a fresh client's discovery reply carrying an error-status, unauthenticated plaintext with the PDU type of a Trap / Inform / Get / Set, the digest copied over a zero run, "
                "truncation, stale MAC with another PDU, another request id); the structural forgeries also as the answer to the second of two requests in flight on one "
                "client, delivered right after the authentic answer to the first was processed; after each attack an unattacked request must still succeed; "
                "non-trivial = distinct attack that the client refused") % ("every single-bit flip at every position" if not q else "156 sampled single-bit flips (all of the first two octets)", len(drv_atk.STRUCT))
    ctx.exhaustive = not q
    ctx.assumptions = ["perfect MAC and cipher (Dolev-Yao): the attacker knows another user's keys but not the victim's",
                       "replay of an older authentic response is not in the property's list and is not judged",
                       "a change the parser normalises away and that leaves the result identical is accepted"]


def replay(ctx, path):
    sc = json.load(open(path))["trace"]["scenario"]
    atk = (sc["attack"], sc["bit"]) if sc["attack"] == "bitflip" else sc["attack"]
    T = drv_atk.run_families([(sc["level"], sc["hash"], "overlap" if sc.get("overlap") else sc["op"], [atk], sc["attack"] == "digest_into_zero_run")])
    ctx.judge(T, ctx.validate("Trace_UsmAtk", T, constants=dict(U.PINS, Attack=True), spec="TSpec"), signature=sig)
