"""C19 - registered trap listeners receive every matching notification, with its origin.  DESIGN.md 6 / C19."""
import itertools, json, random
import drv_trap as D
from common import *
from absmap import enc_abs, VALUE_TYPES

LEVEL = "model_checking"


def payloads(rnd):
    vals = [(PFX + (1, i), enc_abs([t, 10 + i])) for i, t in enumerate(VALUE_TYPES)]
    return {"p0": [], "p1": [vals[0]], "p3": vals[:3], "pall": vals + [(PFX + (2, 0), NULL)],
            "pbig": [(PFX + (3, i), enc_str(bytes(rnd.randrange(256) for _ in range(200)))) for i in range(10)]}


def symbols(rnd, community=b"public"):
    P = payloads(rnd)
    S = {}
    for pk, pv in P.items():
        for sk in D.SRC:
            S["valid:%s:%s" % (pk, sk)] = dict(kind="valid", raw=D.notification(community, pv, reqid=rnd.choice([0, 77, 2 ** 31 - 1])), src=sk)
    for c in (b"private", b"publi", b"public2", b"PUBLIC", b"", b"public\xff", b"\x80public", b"pub\xc3\xa9lic", b" public", b"public@102", b"@public", b"public@"):
        if c == community:
            continue
        S["foreign:%r" % c] = dict(kind="foreign", raw=D.notification(c, P["p1"]), src="s4")
    v = D.notification(community, P["p3"])
    for n in (1, 2, 5, 10, 20, len(v) // 2, len(v) - 1):
        S["truncated:%d" % n] = dict(kind="truncated", raw=v[:n], src="s4")
    S["garbage:1"] = dict(kind="garbage", raw=b"\x01\x02\x03", src="s4")
    S["garbage:2"] = dict(kind="garbage", raw=bytes(rnd.randrange(256) for _ in range(60)), src="s4b")
    S["garbage:3"] = dict(kind="garbage", raw=b"\x30\x03\x02\x01\x01", src="s4")
    S["garbage:v3"] = dict(kind="garbage", raw=build_v3(1, 65507, 0, b"e", 1, 1, b"", b"", b"", build_scoped(b"e", b"", build_pdu(TRAP2, 1, 0, 0, []))), src="s4")
    # an intact envelope (lengths fit, version 1, the registered community) around broken PDU content
    oidb = enc_oid(D.UPTIME)
    inner = {
        "status_type": tlv(0x02, b"\x4d") + tlv(0x04, b"\x00") + tlv(0x02, b"\x00") + tlv(0x30, b""),
        "triple": tlv(0x02, b"\x4d") + tlv(0x02, b"\x00") + tlv(0x02, b"\x00") + tlv(0x30, tlv(0x30, oidb + NULL + NULL)),
        "overrun": tlv(0x02, b"\x4d") + tlv(0x02, b"\x00") + tlv(0x02, b"\x00") + b"\x30\x7f" + tlv(0x30, oidb + NULL),
        "noise": bytes(rnd.randrange(256) for _ in range(40)),
        "emptypdu": b"",
        "vb_not_seq": tlv(0x02, b"\x4d") + tlv(0x02, b"\x00") + tlv(0x02, b"\x00") + tlv(0x30, oidb + NULL),
        "no_bindings_field": tlv(0x02, b"\x4d") + tlv(0x02, b"\x00") + tlv(0x02, b"\x00"),
    }
    for k, body in inner.items():
        S["badpdu:" + k] = dict(kind="garbage", raw=tlv(0x30, tlv(0x02, b"\x01") + tlv(0x04, community) + tlv(0xa7, body)), src="s4")
    # indefinite-length octets (no end marker anywhere): in a member of the message, as the message itself, inside the PDU
    S["indef:member"] = dict(kind="garbage", raw=b"\x30\x0b\x02\x01\x01\x04\x80" + community + b"\xa7\x01", src="s4")
    S["indef:top"] = dict(kind="garbage", raw=b"\x30\x80\x02\x01\x01" + tlv(0x04, community) + tlv(0xa7, inner["no_bindings_field"]), src="s4")
    S["indef:pdu"] = dict(kind="garbage", raw=tlv(0x30, tlv(0x02, b"\x01") + tlv(0x04, community) + b"\xa7\x80" + inner["vb_not_seq"]), src="s4")
    S["indef:vbl"] = dict(kind="garbage", raw=tlv(0x30, tlv(0x02, b"\x01") + tlv(0x04, community) + tlv(0xa7, tlv(0x02, b"\x4d") + tlv(0x02, b"\x00") + tlv(0x02, b"\x00") + b"\x30\x80" + tlv(0x30, oidb + NULL))), src="s4")
    S["empty"] = dict(kind="garbage", raw=b"", src="s4")
    S["wrongpdu"] = dict(kind="unspecified", raw=build_community(1, community, build_pdu(RESPONSE, 5, 0, 0, P["p1"])), src="s4")
    S["v1framed"] = dict(kind="foreign", raw=D.notification(b"private", P["p1"], version=0), src="s4")
    S["v1framed_match"] = dict(kind="unspecified", raw=D.notification(community, P["p1"], version=0), src="s4")
    return S


def sig(tr, v):
    sc = tr["scenario"]
    return dict(mode=sc["mode"], has_unspecified="unspecified" in sc["word"])


def run(ctx):
    q = ctx.quick
    ctx.model_check("Trap", "words", constants=dict(MaxLen=3 if q else 4, PinBrokenDecode=False, PinStopOnError=False), invariants=["DeliveredExactly", "NeverMore"], must_cover=["Receive"])
    if not q:
        ctx.model_check("Trap", "selftest_broken_decode", constants=dict(MaxLen=2, PinBrokenDecode=True, PinStopOnError=False), invariants=["DeliveredExactly"], expect=["DeliveredExactly"])
        ctx.model_check("Trap", "selftest_stop_on_error", constants=dict(MaxLen=3, PinBrokenDecode=False, PinStopOnError=True), invariants=["DeliveredExactly"], expect=["DeliveredExactly"])
    rnd = random.Random(ctx.seed)
    S = symbols(rnd)
    keys = list(S)
    valid = [k for k in keys if k.startswith("valid")]
    bad = [k for k in keys if not k.startswith("valid") and not k.startswith("v1framed")]
    words = [[k] for k in keys]
    # every bad datagram first / between / after valid ones
    for b in bad:
        words.append([b, rnd.choice(valid), rnd.choice(valid)])
        words.append([rnd.choice(valid), b, rnd.choice(valid)])
    for k in ("v1framed", "v1framed_match"):
        words.append([k, rnd.choice(valid), rnd.choice(valid)])
        words.append([rnd.choice(valid), k, rnd.choice(valid)])
    small = ["valid:p0:s4", "valid:p3:s6", "foreign:b'private'", "truncated:10", "garbage:1", "empty"]
    for n in (2, 3) if q else (2, 3, 4):
        for w in itertools.product(small, repeat=n):
            words.append(list(w))
    for _ in range(100 if q else 2000):
        words.append([rnd.choice(keys) for _ in range(rnd.randint(3, 8))])
    T = [D.run_word([S[k] for k in w]) for w in words]
    # bursts: several datagrams read in one event-loop iteration, a callback that suspends before it is done (each is still delivered once)
    for w in [["valid:p1:s4"] * 5, ["valid:p3:s4", "truncated:10", "valid:p0:s6", "foreign:b'private'", "valid:p1:s4b", "garbage:1", "valid:pall:s4"],
              ["valid:p0:s4", "valid:p0:s4"]] + [[rnd.choice(keys) for _ in range(6)] for _ in range(15 if q else 150)]:
        w = [k for k in w if not k.startswith("indef")]
        T.append(D.run_word([S[k] for k in w], mode="burst"))
    # the library's loggers at DEBUG (a configuration): large and small notifications are delivered all the same
    for w in [["valid:pbig:s4", "valid:p0:s4"], ["valid:pall:s6", "garbage:1", "valid:pbig:s4b"]] + [[rnd.choice(keys) for _ in range(4)] for _ in range(20 if q else 200)]:
        T.append(D.run_word([S[k] for k in w], debuglog=True))
    # a listener whose own community contains '@' / is a prefix of what senders use (community strings are compared verbatim)
    for comm in ("noc@site-7", "public@", "pub"):
        S2 = symbols(rnd, community=comm.encode())
        for w in ([k] for k in S2 if k.startswith(("valid:p1", "valid:p3", "foreign"))):
            T.append(D.run_word([S2[k] for k in w], community=comm))
    for w in ([["valid:p3:s4", "foreign:b'private'", "garbage:1", "valid:p0:s4"], ["truncated:10", "valid:pall:s4"]] + ([] if q else [[rnd.choice([k for k in keys if not k.startswith("indef")]) for _ in range(5)] for _ in range(25)])):
        T.append(D.run_word([S[k] for k in w], mode="loopback"))
    ctx.evaluations += len(T)
    verdicts = ctx.validate("Trace_Trap", T, chunk=2000)
    ctx.judge(T, verdicts, signature=sig, nontrivial=lambda tr, v: json.dumps(tr["scenario"]["word"]) if v[2] >= 1 else None)
    ctx.rule = ("words over {well-formed v2c notifications with 0..19 payload bindings of every value type from IPv4 and IPv6 senders, twelve foreign communities (prefix, "
                "case, non-ASCII, '@'-suffixed variants; listeners whose own community contains '@'), truncations, garbage, intact envelopes around broken PDU content (7 kinds), indefinite-length octets at 4 depths, empty datagram, a v3 message, a Response PDU, v1-framed notifications}: every word of length <= %d over "
                "six representatives, every malformed datagram before / between / after valid ones, seeded longer words; fed one by one and in bursts (one event-loop iteration, suspending callback) through the real "
                "SNMPTrapReceiverProtocol and the callback register_trap_callback installs, and through a real loopback socket; non-trivial = >= 1 expected delivery") % (3 if q else 4)
    ctx.assumptions = ["whether a datagram is a well-formed matching notification is decided by Ber.tla on the raw bytes",
                       "well-formed messages with the matching community that are not SNMPv2c notifications (a v1-framed notification PDU, a Response PDU) are left unspecified: delivering them or not is accepted (weaker reading)"]


def replay(ctx, path):
    d = json.load(open(path))
    T = [d["trace"]]
    ctx.judge(T, ctx.validate("Trace_Trap", T), signature=sig)
