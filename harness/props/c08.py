"""C08 - agent error-status always surfaces as the documented exception, never as data.  DESIGN.md 6 / C08."""
import random
from props import opscommon as O

LEVEL = "model_checking"


def run(ctx):
    q = ctx.quick
    ctx.model_check("MC_Ops", "errors", constants=dict(O.BASE, Perturbs=("<-", "PertErr"), ErrStatuses=("<-", "StatQ" if q else "StatT")),
                    invariants=O.INV_C08, must_cover=["AgentReply", "Decode"])
    # the walk level: how multiwalk's handlers treat an exchange that fails (every db over the small universe, both fetchers, both error modes)
    from props import walkcommon as WC
    FAULTS = '{"none", "noSuchName", "genErr", "foreignId", "usmReject"}'
    ctx.model_check("MC_Walk", "walk_errors", constants=WC.consts("CandFQ", "RootF", 2, "{0,2}", False, '{"strict","warn"}', ExchangeFaults=FAULTS),
                    invariants=["ErrorsPropagate", "NoSuchNameEndsWalk", "NoDup", "InsideRoots"], constraints=["NreqCap"], must_cover=["Round", "RoundFault"])
    if not q:
        ctx.model_check("MC_Walk", "selftest_lenient_swallows_all", constants=WC.consts("CandFQ", "RootF", 1, "{0}", False, '{"strict","warn"}', ExchangeFaults=FAULTS,
                                                                                       PinLenientSwallowsAll=True),
                        invariants=["ErrorsPropagate"], constraints=["NreqCap"], expect=["ErrorsPropagate"])
        ctx.model_check("MC_Ops", "selftest_err_index", constants=dict(O.BASE, Perturbs=("<-", "PertErr"), ErrStatuses=("<-", "StatQ"), PinErrIndex=True),
                        invariants=O.INV_C08, expect=["ErrorSurfaces", "NoNonSnmpException"])
    rnd = random.Random(ctx.seed)
    statuses = list(range(1, 20)) + [255, -1, 65536, -128]
    S = []
    db = O.dbs(1)[-1]
    for op in O.OPS:
        for proto in O.PROTOS:
            if op == "bulkget" and proto == "v1":
                continue
            for es in statuses:
                if q and rnd.random() > 0.5:
                    continue
                oids = [[1, 1]] if op in O.SINGLE else [[1, 1], [1, 2], [2, 1]][:rnd.randint(1, 3)]
                for ei in range(0, len(oids) + 2):
                    for echo in (True, False):
                        if q and rnd.random() > 0.6:
                            continue
                        sc = dict(op=op, oids=oids, db=db, proto=proto, perturb="err", es=es, ei=ei, echo=echo, nr=0, mr=0)
                        if op == "bulkget":
                            sc["nr"], sc["mr"] = rnd.randint(0, len(oids)), 2
                        if op in ("set", "multiset"):
                            sc["setvals"] = O.setvals(rnd, oids)
                        S.append(sc)
                        if rnd.random() < 0.15:
                            S.append(dict(sc, inblock=True))        # the same exchange inside `with client.reconfigure(...)`: the exception leaves the block unchanged
    ctx.rule = ("every operation x v1/v2c/v3 noAuthNoPriv/authNoPriv/authPriv x error-status in 1..19, 255, -1, 65536, -128 x error-index 0..len+1 x "
                "{bindings echoed, empty binding list} (a sample also inside a reconfigure() block); walk-style operations (strict and lenient) with the error injected at the k-th request; non-trivial = accepted trace of a distinct scenario")
    O.drive_and_judge(ctx, S)
    W = []
    for proto in ["v2c", "v1", "v3n", "v3a_sha", "v3p_md5"]:
        for api, bulk in [("walk", 0), ("multiwalk", 0), ("bulkwalk", 2), ("table", 0), ("bulktable", 2), ("py.walk", 0)]:
            if proto == "v1" and bulk:
                continue
            for es in ([1, 2, 5, 16, 19] if q else statuses):
                for at in (1, 2):
                    roots = [[1]] if api != "multiwalk" else [[1], [2]]
                    W.append(dict(db=[[1, 1, 1], [1, 1, 2], [1, 2, 1], [2, 1, 1]], roots=roots, bulk=bulk, api=api, proto=proto,
                                  err=dict(at=at, es=es, ei=rnd.randint(0, 2))))
                    if api in ("walk", "multiwalk", "py.walk"):
                        # lenient mode forgives agents whose OIDs do not increase - not agents that report an error
                        W.append(dict(W[-1], errors="warn"))
                    elif api == "bulkwalk":
                        W.append(dict(W[-1], api="multiwalk_fetcher", errors="warn"))
    O.drive_walks(ctx, W)
    ctx.assumptions = ["the offending OID is judged only when error-index selects a binding (1 <= index <= number of bindings)",
                       "walks end silently on noSuchName (status 2), as documented; every other status must propagate"]


def replay(ctx, path):
    import json
    sc = json.load(open(path))["trace"]["scenario"]
    (O.drive_walks if "roots" in sc else O.drive_and_judge)(ctx, [sc])
