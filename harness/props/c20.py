"""C20 - no datagram, however malformed, can hang the client or exhaust memory.  DESIGN.md 6 / C20."""
import json, multiprocessing, random
import drv_fuzz as F

LEVEL = "fault_enumeration"


def sig(tr, v):
    e = tr["events"][0]
    return dict(target=e["target"], proto=e["proto"], mutation=e["mut"][0])


def run(ctx):
    q = ctx.quick
    ctx.model_check("MC_Decoder", "cursor", constants=dict(Alphabet=("<-", "AlphaQ"), MaxLen=5 if q else 6, PinNoGuard=False),
                    invariants=["Progress", "BoundedWork"], properties=["Terminates"], must_cover=["Guard", "Decode"], timeout=3000)
    if not q:
        ctx.model_check("MC_Decoder", "cursor_wide_alphabet", constants=dict(Alphabet=("<-", "AlphaT"), MaxLen=5, PinNoGuard=False),
                        invariants=["Progress", "BoundedWork"], timeout=3000)
        ctx.model_check("MC_Decoder", "selftest_no_guard", constants=dict(Alphabet=("<-", "AlphaQ"), MaxLen=4, PinNoGuard=True), invariants=["Progress"], expect=["Progress"])
    rnd = random.Random(ctx.seed)
    targets = []
    for proto in ("v1", "v2c", "v3n", "v3a_md5", "v3p_sha"):
        for seedsel in (("get", "multiget") if proto != "v1" else ("get",)):
            targets.append(("response", proto, seedsel))
        if proto != "v1" and not q:
            targets.append(("response", proto, "bulk"))
    for proto in ("v2c", "v1"):
        targets.append(("pyresponse", proto, "multiget" if proto == "v2c" else "get"))      # the same responses consumed through the pythonic wrapper (values are converted)
    for proto in ("v3n", "v3a_md5", "v3p_sha"):
        targets += [("discovery", proto, "get"), ("report", proto, "get")]
    for proto in ("v3a_md5", "v3p_sha"):
        targets.append(("resigned", proto, "multiget"))
    jobs = []
    for target, proto, seedsel in targets:
        seed = F.seed_bytes(target, proto, seedsel)
        if not seed:
            ctx.machinery.append("no seed captured for %s/%s/%s" % (target, proto, seedsel))
            continue
        M = F.mutations(seed, rnd, q, stride=1 if not q else 3)
        if target in ("response", "discovery", "pyresponse"):
            M = M + F.sticky_behaviours(proto.startswith("v3"))
        n = 4 if not q else 2
        for i in range(n):
            jobs.append((target, proto, seedsel, M[i::n]))
    tseed = F.run_trap([])[1]
    TM = F.mutations(tseed, rnd, q, stride=1 if not q else 2)
    for i in range(2):
        jobs.append(("trap", "v2c", "get", TM[i::2]))
    with multiprocessing.get_context("fork").Pool(14) as pool:
        results = pool.map(F.job, jobs, chunksize=1)
    E = [e for r in results for e in r]
    T = [dict(scenario=dict(target=e["target"], proto=e["proto"]), events=[e]) for e in E]
    ctx.evaluations += len(T)
    verdicts = ctx.validate("Trace_Decoder", T, chunk=20000)
    ctx.judge(T, verdicts, signature=sig, nontrivial=lambda tr, v: json.dumps([tr["events"][0]["target"], tr["events"][0]["proto"], tr["events"][0]["mut"]]) if tr["events"][0]["outcome"] != "result" else None)
    worst = max(E, key=lambda e: e["cpu_ms"])
    ctx.extra["worst_case_cpu_ms"] = worst["cpu_ms"]
    ctx.extra["worst_case"] = dict(target=worst["target"], proto=worst["proto"], mut=worst["mut"], len=worst["len"])
    ctx.rule = ("for valid v1/v2c/v3 (noAuth, authNoPriv, authPriv) responses (1 and 3 bindings%s), notInTimeWindow / unknownUser Reports, discovery replies, "
                "properly re-signed / re-encrypted responses whose scoped PDU was damaged (after authentication) and v2c traps: every TLV header octet (tag and each "
                "length octet, incl. inside the USM parameters) substituted by {00,01,02,05,30,7f,80,81,82,83,84,88,a2,ff}, %s, %s, an inserted 0x80 length that "
                "straddles its container, nesting up to 3000 levels, 60 kB strings, random strings, chains of 8..40 nested lengths that all reach to the end of the datagram, well-formed messages with 1000 / 6400 tiny bindings, Opaque / OCTET STRING values that are themselves hostile BER (also consumed through the pythonic wrapper), 0x80 at every header position; each under a process-CPU-time budget of 0.25 s + 50 us/octet and a "
                "resident-set budget, followed by a valid request on the same client; non-trivial = distinct case the client did not accept") % (
                   ", GETBULK" if not q else "", "every single-bit flip" if not q else "sampled single-bit flips (all top bits of header octets)",
                   "every truncation" if not q else "sampled truncations")
    ctx.assumptions = ["CPU time and memory are measured (ITIMER_VIRTUAL process CPU time, ru_maxrss growth), not modelled; the model contributes the cursor-progress argument",
                       "x690 is an external package outside /repo; puresnmp guards against its indefinite-length loop (fix f0e6b77 + 9092519)"]


def replay(ctx, path):
    e = json.load(open(path))["trace"]["events"][0]
    ev = F.job((e["target"], e["proto"], "multiget" if e["target"] == "resigned" else "get", [tuple(e["mut"])]))
    T = [dict(scenario=dict(target=x["target"], proto=x["proto"]), events=[x]) for x in ev]
    ctx.judge(T, ctx.validate("Trace_Decoder", T), signature=sig)
