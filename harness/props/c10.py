"""C10 - USM interop: requests verify under RFC 3414, authentic responses are accepted.  DESIGN.md 6 / C10."""
import random
from props import usmcommon as U
import drv_usm

LEVEL = "model_checking"


def run(ctx):
    q = ctx.quick
    ctx.model_check("Usm", "interop", constants=U.PINS, invariants=U.INV_C10, must_cover=["Encode", "AgentStep", "Deliver", "Decode"])
    if not q:
        ctx.model_check("Usm", "selftest_reportable", constants=dict(U.PINS, PinConfirmedOnlyGet=True), invariants=U.INV_C10, expect=["FlagsExact"])
        ctx.model_check("Usm", "selftest_reserialise", constants=dict(U.PINS, PinReserialise=True), invariants=U.INV_C10, expect=["AuthenticAccepted"])
        ctx.model_check("Usm", "selftest_stats_in_response", constants=dict(U.PINS, PinStatsInResponse=True), invariants=U.INV_C10, expect=["AuthenticAccepted"])
    rnd = random.Random(ctx.seed)
    S = []
    # (1) every response length: the padding sweeps total message, scoped PDU and PDU lengths across 127/128 and 255/256
    for level in ("auth", "authpriv", "noauth"):
        for h in ("md5", "sha1"):
            if level == "noauth" and h == "sha1":
                continue
            for pad in range(0, 301, 1 if (not q or level == "auth") else 3):
                op = ["get", "multiget", "getnext", "bulkget", "walk"][pad % 5]
                S.append(dict(level=level, hash=h, authpw=b"maplesyrup", privpw=b"privsecret", op=op, pad=pad))
    # (1b) every request length: OID padding sweeps the request's PDU / scoped-PDU / message lengths across the same boundaries
    for level in ("auth", "authpriv"):
        for op in ("padget", "padgetnext", "padbulk", "padset"):
            for rp in range(0, 260, 1 if (not q or (level == "auth")) else 4):
                S.append(dict(level=level, hash=("md5", "sha1")[rp % 2], authpw=b"maplesyrup", privpw=b"privsecret", op=op, reqpad=rp, pad=0))
    # (2) every password length 1..300 (RFC 3414 A.2 key derivation), both hashes
    lens = list(range(1, 301)) if not q else sorted(set([1, 2, 3, 4, 7, 8, 15, 16, 17, 31, 32, 33, 63, 64, 65, 100, 127, 128, 129, 255, 256, 257, 300] + rnd.sample(range(1, 301), 25)))
    for n in lens:
        for h in ("md5", "sha1"):
            pw = bytes(rnd.randrange(33, 127) for _ in range(n))
            S.append(dict(level=rnd.choice(["auth", "authpriv"]), hash=h, authpw=pw, privpw=bytes(reversed(pw)) or b"x", op=rnd.choice(drv_usm.OPS), pad=rnd.randrange(40)))
    # (3) every engine id length 5..32, user names, every operation, context names
    for n in range(5, 33):
        for h in ("md5", "sha1"):
            eng = bytes([0x80, 0, 0x1f, 0x88, 4]) + bytes(rnd.randrange(256) for _ in range(n - 5))
            S.append(dict(level=rnd.choice(["auth", "authpriv"]), hash=h, authpw=b"maplesyrup", privpw=b"privsecret", engine=eng, op=rnd.choice(drv_usm.OPS),
                          pad=rnd.randrange(300), user="u" * rnd.choice([1, 5, 12, 32]), boots=rnd.choice([0, 1, 127, 128, 1036, 2 ** 31 - 1]),
                          now=rnd.choice([0, 1036, 50000, 2 ** 31 - 200])))
    for op in drv_usm.OPS:
        for level in ("noauth", "auth", "authpriv"):
            for h in ("md5", "sha1"):
                S.append(dict(level=level, hash=h, authpw=b"maplesyrup", privpw=b"privsecret", op=op, pad=rnd.randrange(300), ctxname=rnd.choice([b"", b"ctx", b"c" * 130]),
                              ctxengine=rnd.choice([b"", b"\x80\x00\x00\x01\x02other"])))
    # histories in one process: a NEW client for an engine another client has talked to before its restart (nothing is shared between clients);
    # authentic error responses (accepted and decoded as the documented exception)
    for level in ("noauth", "auth", "authpriv"):
        for h in ("md5", "sha1"):
            for op in ("get", "set", "walk", "bulkget"):
                S.append(dict(level=level, hash=h, authpw=b"maplesyrup", privpw=b"privsecret", op=op, pad=4, second_client=True, boots=rnd.choice([0, 7])))
            for es in (2, 5, 17, 19):
                for op in ("get", "set", "getnext", "bulkget"):
                    S.append(dict(level=level, hash=h, authpw=b"maplesyrup", privpw=b"privsecret", op=op, pad=4, agent_es=es))
    ctx.rule = ("exchanges with an independent RFC 3412/3414 agent (own BER, own A.2 key localisation, own HMAC): response padding 0..300 so that message, "
                "scoped-PDU and PDU lengths cross every boundary in 100..300%s; pass-phrases of %s length 1..300 for MD5 and SHA-1; engine ids of 5..32 octets, "
                "user-name lengths, boots/time boundary values; every operation x level x context; a second client for the same engine after its restart; authentic error responses (status 2, 5, 17, 19); two / three requests of one client in flight answered in every order; TLC decodes each request with Ber.tla; distinct = distinct request datagram") % (
                   "" if not q else " (authPriv/noAuth every third length in quick)", "every" if not q else "48 (incl. every power of two)")
    U.drive(ctx, S)
    # two requests of one client in flight (msgIDs differ): every authentic response is accepted in whatever order the answers arrive
    import asyncio, itertools
    import drv_conc as DC
    T2 = []
    for proto in ("v3a_md5", "v3p_sha", "v3n"):
        for ops in ([["get", 0], ["get2", 0]], [["get", 0], ["set", 0], ["mget", 0]]):
            solo, ex = DC.solo_results(proto, ops, 1), DC.exchanges(proto, ops, 1)
            word = [k for k, n in ex.items() for _ in range(n)]
            orders = sorted(set(itertools.permutations(word)))
            for order in (orders if len(orders) <= 30 else rnd.sample(orders, 30)):
                sc = dict(proto=proto, ops=ops, order=list(order), clients=1)
                T2.append(dict(scenario=dict(sc, solo=solo), events=asyncio.run(DC.run_schedule(sc))))
    ctx.evaluations += len(T2)
    ctx.judge(T2, ctx.validate("Trace_Concurrent", T2, name="C10c"), signature=lambda tr, v: dict(hash="-", level=tr["scenario"]["proto"], op="overlap"))
    ctx.assumptions = ["HMAC-MD5-96 / HMAC-SHA-96 and key localisation are uninterpreted in TLA+; their arithmetic is decided by the reference agent's independent "
                       "implementation (digest_ok)", "client and agent share one virtual clock, so the engine time sent must equal the agent's"]


def replay(ctx, path):
    import json
    sc = json.load(open(path))["trace"]["scenario"]
    if "order" in sc:
        import asyncio
        import drv_conc as DC
        solo = sc.pop("solo")
        T = [dict(scenario=dict(sc, solo=solo), events=asyncio.run(DC.run_schedule(sc)))]
        ctx.judge(T, ctx.validate("Trace_Concurrent", T), signature=lambda tr, v: dict(hash="-", level=tr["scenario"]["proto"], op="overlap"))
        return
    for k in ("authpw", "privpw", "engine", "ctxname", "ctxengine", "secret"):
        if k in sc:
            sc[k] = bytes(sc[k])
    U.drive(ctx, [sc])
