"""Driver for C12: histories of operations / agent clock advances / agent reboots on one client, with the agent's
clock and the client's clock driven by the same virtual time source."""
from __future__ import annotations
import asyncio
from common import *
import drv_usm
from x690.types import ObjectIdentifier as OID


async def run_history(sc):
    import time as _t
    import puresnmp.util as U
    from puresnmp import Client
    clock = [float(sc.get("t0", 1000000))]
    u = drv_usm.make_user(sc)
    engine = b"\x80\x00\x1f\x88\x80verifeng"
    inst = PFX + (1, 1, 0)
    ag = Agent({inst: enc_str(b"value")}, users=[u], engine=engine, boots=sc.get("boots", 3), clock=lambda: clock[0])
    ag.t0 = clock[0] - sc.get("agent_time", 1000)
    ag.honour_reportable = bool(sc.get("honour_reportable"))
    wire = []

    def classify(packet):
        try:
            return "probe" if parse_v3(packet)["engine"] == b"" else "request"
        except Exception:  # noqa
            return "request"
    disco = sc.get("disco", "ok")

    async def sender(endpoint, packet, timeout=None, retries=None):
        packet = bytes(packet)
        k = classify(packet)
        wire.append(k)
        try:
            raw = ag.handle(packet)
        except Dropped:
            from puresnmp.exc import Timeout
            raise Timeout("no answer (the agent dropped the datagram)")
        if k == "probe" and disco != "ok" and wire.count("probe") == 1:
            q = ag.log[-1]
            if disco in ("msgid_maxint", "msgid_zero", "msgid_minus1"):
                v = {"msgid_maxint": 2 ** 31 - 1, "msgid_zero": 0, "msgid_minus1": -1}[disco]
                raw = ag.report(q, "unknownEngineIDs", None, v if v != q["msgid"] else v - 3, q.get("reqid", 0))
            elif disco == "msgid_plus1":
                ag.disco_delta = 1
                raw = ag.report(q, "unknownEngineIDs", None, q["msgid"] + 1, q.get("reqid", 0))
                ag.disco_delta = 0
            elif disco in ("report_err2", "report_err5"):
                # a discovery reply whose Report PDU carries an error-status: not a usable discovery reply, and not the answer to anything
                from refagent import USM_STATS
                raw = build_v3(q["msgid"], 65507, 0, ag.engine, ag.boots, ag.engine_time(), b"", b"", b"",
                               build_scoped(ag.engine, b"", build_pdu(REPORT, q.get("reqid", 0), 2 if disco.endswith("2") else 5, 1, [(USM_STATS["unknownEngineIDs"], enc_uint(1, 0x41))])))
            elif disco in ("no_varbinds", "no_varbinds_stale"):
                # a refused reply must leave nothing behind: the stale variant carries the timing of the previous boot cycle
                stale = disco.endswith("stale")
                raw = build_v3(q["msgid"], 65507, 0, ag.engine, max(ag.boots - 1, 0) if stale else ag.boots, ag.engine_time() + (432000 if stale else 0), b"", b"", b"",
                               build_scoped(ag.engine, b"", build_pdu(REPORT, q.get("reqid", 0), 0, 0, [])))
        return raw
    # a configured context engine id (Client(engine_id=...)) names the context, not the agent: discovery still comes first
    cfg_ctx = {"agent": engine, "other": b"\x80\x00\x00\x01\x02ctx-behind"}.get(sc.get("ctxengine"), b"")
    c = Client("192.0.2.1", drv_usm.make_creds(sc), sender=sender, engine_id=cfg_ctx)
    import puresnmp.api.raw, puresnmp_plugins.security.usm  # noqa
    _clk = patched_clock(lambda: clock[0], monotonic=True)     # no event-loop timers are used in this driver
    _clk.__enter__()
    events = []
    try:
        for step in sc["history"]:
            if step == "op":
                n0, w0 = len(ag.log), len(wire)
                try:
                    if sc.get("opkind") == "walk":
                        r = [vb async for vb in c.walk(OID(oidstr(PFX + (1,))))]
                        ret = "ok" if [(tuple(vb.oid.nodes), vb.value.value) for vb in r] == [(inst, b"value")] else "wrong"
                    else:
                        r = await c.get(OID(oidstr(inst)))
                        ret = "ok" if r.value == b"value" else "wrong"
                except Exception as e:  # noqa
                    ret = "exc"
                reqs = []
                for q in ag.log[n0:]:
                    if q.get("engine") == b"" and "user" in q and q.get("verdict") == "unknownEngineIDs":
                        continue
                    reqs.append(dict(boots=q["boots"], time=q["time"], agent_boots=ag.boots, agent_time=q.get("agent_time", ag.engine_time()),
                                     auth=bool(q["flags"] & 1), engine_ok=q["engine"] == engine, ctx_ok=q.get("ctxengine", cfg_ctx or engine) == (cfg_ctx or engine), verdict=q.get("verdict", "?")))
                w = wire[w0:]
                events.append(dict(e="op", ret=ret, probes=w.count("probe"), first_wire=w[0] if w else "none", reqs=reqs))
            elif step == "new":
                # another client object for the same agent, created later in the same process: it starts from nothing (nothing is shared)
                c = Client("192.0.2.1", drv_usm.make_creds(sc), sender=sender, engine_id=cfg_ctx)
                events.append(dict(e="newclient"))
            elif step == "switch":
                # the same client leaves SNMPv3 for v2c and comes back: the v3 message layer is created anew and knows nothing (as a new client)
                from puresnmp import V2C
                c.configure(credentials=V2C("public"))
                c.configure(credentials=drv_usm.make_creds(sc))
                events.append(dict(e="relayer"))
            elif step == "reboot":
                ag.reboot()
                events.append(dict(e="reboot"))
            else:
                clock[0] += step
                events.append(dict(e="advance", d=step))
    finally:
        _clk.__exit__(None, None, None)
    return dict(scenario=sc, events=events)


def run_all(S):
    async def main():
        out = []
        for sc in S:
            t = await run_history(dict(sc))
            t["scenario"] = {k: (list(v) if isinstance(v, (bytes, bytearray)) else v) for k, v in sc.items()}
            out.append(t)
        return out
    return asyncio.run(main())
