"""Virtual-time asyncio loop with a recording datagram endpoint factory (C13, also used by C19).
time() is a counter: when nothing is ready the loop jumps to the next timer, so timeouts take no wall time and
every run is deterministic.  The fake transports obey asyncio's contract: nothing is delivered after close/abort."""
from __future__ import annotations
import asyncio


class VLoop(asyncio.SelectorEventLoop):
    def __init__(self):
        super().__init__()
        self._vt = 0.0
        self.events = []
        self.scripts = []
        self.nsock = 0
        self.nsend = 0          # transmissions so far (over all sockets): the n-th transmission meets the n-th outcome of the script
        self.errors = []
        self.TIMEOUT = 2
        self.set_exception_handler(lambda loop, ctx: self.errors.append(repr(ctx.get("exception") or ctx.get("message"))))

    def time(self):
        return self._vt

    def _run_once(self):
        if not self._ready and self._scheduled:
            live = [h._when for h in self._scheduled if not h._cancelled]
            if live:
                nxt = min(live)
                if nxt > self._vt:
                    self._vt = nxt
        super()._run_once()

    def log(self, **kw):
        self.events.append(dict(t=int(round(self._vt * 1000)), **kw))

    async def create_datagram_endpoint(self, protocol_factory, local_addr=None, remote_addr=None, **kw):
        self.nsock += 1
        k = self.nsock
        proto = protocol_factory()
        tr = FakeTransport(self, proto, k)
        self.log(e="open", k=k)
        proto.connection_made(tr)
        return tr, proto


class FakeTransport(asyncio.DatagramTransport):
    def __init__(self, loop, proto, k):
        super().__init__()
        self.loop, self.proto, self.k, self.closed, self.closed_by = loop, proto, k, False, ""

    def get_extra_info(self, name, default=None):
        return default

    def is_closing(self):
        return self.closed

    def sendto(self, data, addr=None):
        # the n-th transmission of the call (whichever socket it leaves from) meets the n-th outcome of the script; what comes back
        # comes back to the socket it was sent from - if that socket is still open then
        self.loop.nsend += 1
        n = self.loop.nsend
        if self.closed:
            # asyncio discards a datagram handed to a closed transport (closed by the client itself, or gone)
            self.loop.log(e="sendto_on_closed", k=self.k, by=self.closed_by)
            return
        self.loop.log(e="sendto", k=self.k, n=n, payload=list(data))
        s, T = (self.loop.scripts[n - 1] if n <= len(self.loop.scripts) else "none"), self.loop.TIMEOUT
        if s == "reply":
            self.loop.call_later(T / 2, self._deliver, self.reply(n, 1))
        elif s == "empty":           # a reply datagram of length zero is a reply (its bytes are b"")
            self.loop.call_later(T / 2, self._deliver, b"")
        elif s == "late":
            self.loop.call_later(T * 1.5, self._deliver, self.reply(n, 1))
        elif s == "two":
            self.loop.call_later(T / 2, self._deliver, self.reply(n, 1))
            self.loop.call_later(T / 2, self._deliver, self.reply(n, 2))
        elif s == "icmp":
            self.loop.call_later(T / 2, self._error, ConnectionRefusedError(111, "Connection refused"))
        elif s == "lost":
            self.loop.call_later(T / 2, self._lost, OSError("network is down"))
        elif s == "gone":            # the transport goes away cleanly (connection_lost(None)) before anything arrived
            self.loop.call_later(T / 2, self._lost, None)

    def reply(self, n, j):
        base = getattr(self.loop, "reply_payload", b"REPLY")
        return base + bytes([n, j]) + getattr(self.loop, "reply_tail", b"")

    def _deliver(self, data):
        if self.closed:
            self.loop.log(e="dropped", k=self.k)
            return
        self.loop.log(e="deliver", k=self.k, data=list(data))
        self.proto.datagram_received(data, getattr(self.loop, "peer_addr", ("192.0.2.1", 161)))

    def _error(self, exc):
        if self.closed:
            return
        self.loop.log(e="error", k=self.k)
        self.proto.error_received(exc)

    def _lost(self, exc):
        if self.closed:
            return
        self.closed, self.closed_by = True, "env"
        self.loop.log(e="lost" if exc is not None else "gone", k=self.k)
        self.proto.connection_lost(exc)

    def close(self):
        if self.closed:
            return
        self.closed, self.closed_by = True, "client"
        self.loop.log(e="close", k=self.k)
        self.loop.call_soon(self.proto.connection_lost, None)

    def abort(self):
        if self.closed:
            return
        self.closed, self.closed_by = True, "client"
        self.loop.log(e="abort", k=self.k)
        self.loop.call_soon(self.proto.connection_lost, None)
