"""Driver for C09: an on-path attacker (executable counterpart of the Dolev-Yao attacker of spec/Usm.tla) rewrites the
authentic response of the reference agent; the real client must raise or return exactly the authentic result."""
from __future__ import annotations
import asyncio
from common import *
from refagent import hmac96, localised_key, HNAME, stream, USM_STATS
import drv_usm
from x690.types import ObjectIdentifier as OID, OctetString

ENGINE = b"\x80\x00\x1f\x88\x80verifeng"
OTHER_ENGINE = b"\x80\x00\x1f\x88\x80otherengine"
STRUCT = ["flags0_plain", "flags0_plain_keepdigest", "flags4_plain", "auth_only_plain", "empty_digest", "short_digest", "zero_digest", "garbage_digest",
          "foreign_key_sign", "foreign_user", "foreign_engine", "wrong_localisation", "priv_flag_plain", "nopriv_flag_cipher", "flags2_cipher", "flags6_cipher",
          "report_unauth_evil", "report_unauth_stats", "report_stale_mac", "digest_into_zero_run", "truncate_tail", "swap_pdu_keep_mac", "replay_other_reqid",
          "flags2_malleate", "flags6_malleate", "flags3_malleate_keepdigest",
          # unauthenticated messages whose PDU carries an error-status: the lazily decoded PDU raises on first access, which must not
          # pre-empt the security-level check (noSuchName is what walks treat as "end of the subtree")
          "flags0_plain_err2", "flags0_plain_err5", "report_unauth_err2", "auth_only_plain_err2", "flags0_plain_err2_novb",
          # the (by nature unauthenticated) discovery reply of a fresh client carries an error-status: it is not the answer to the operation
          "disco_report_err2", "disco_report_err5",
          # a foreign user name (signed with the foreign user's key / unsigned) around a PDU with an error-status
          "foreign_user_err2", "foreign_user_plain_err2",
          # unauthenticated plaintext carrying another PDU type than Response / Report (the caller never checks the type of what comes back)
          "flags0_plain_trap", "flags0_plain_inform", "flags0_plain_getreq", "flags0_plain_setreq"]


def result_repr(op, r):
    if op == "get":
        return repr((type(r).__name__, r.value))
    if op == "getnext":
        return repr((tuple(r.oid.nodes), type(r.value).__name__, r.value.value))
    if op == "multiget":
        return repr([(type(v).__name__, v.value) for v in r])
    if op == "set":
        return repr((type(r).__name__, r.value))
    if op == "bulkget":
        return repr([(tuple(k.nodes), v.value) for k, v in r.listing.items()])
    if op in ("walk", "walk_warn", "bulkwalk"):
        return repr([(tuple(vb.oid.nodes), vb.value.value) for vb in r])
    return repr(r)


async def do_op(c, op, inst):
    o = OID(oidstr(inst))
    if op == "get":
        return await c.get(o)
    if op == "getnext":
        return await c.getnext(OID(oidstr(inst[:-2])))
    if op == "multiget":
        return await c.multiget([o, OID(oidstr(PFX + (1, 2, 0)))])
    if op == "set":
        return await c.set(OID(oidstr(PFX + (9, 0))), OctetString(b"set-value"))
    if op == "bulkget":
        return await c.bulkget([], [OID(oidstr(PFX + (1,)))], 2)
    if op == "walk":
        return [vb async for vb in c.walk(OID(oidstr(PFX + (1,))))]
    if op == "walk_warn":          # lenient mode forgives non-increasing OIDs - not forged traffic
        return [vb async for vb in c.walk(OID(oidstr(PFX + (1,))), errors="warn")]
    if op == "bulkwalk":
        return [vb async for vb in c.bulkwalk([OID(oidstr(PFX + (1,)))], bulk_size=2)]
    raise ValueError(op)


def forge(kind, ag, u, xu, req, authentic: bytes, bit=None):
    """-> (forged bytes, symbolic description for the monitor)"""
    evil_vbs = [(o, enc_str(b"EVIL")) for o, _, _ in req["vbs"]] or [((1, 3, 9), enc_str(b"EVIL"))]
    lvl = req["flags"] & 3
    priv = bool(lvl & 2)

    def pdu(ptype=RESPONSE, vbs=None, reqid=None, es=0, ei=0):
        return build_pdu(ptype, req["reqid"] if reqid is None else reqid, es, ei, evil_vbs if vbs is None else vbs)

    def scoped(p):
        return build_scoped(req["ctxengine"], req["ctxname"], p)

    def msg(flags, auth, payload, user=None, engine=None, salt=b""):
        return build_v3(req["msgid"], 65507, flags, ag.engine if engine is None else engine, ag.boots, ag.engine_time(), u.name if user is None else user, auth, salt, payload)

    def signed(flags, payload, key, user=None, engine=None, salt=b""):
        m0 = msg(flags, b"\0" * 12, payload, user, engine, salt)
        mac = hmac96(HNAME[u.auth[0]], key, m0)
        return msg(flags, mac, payload, user, engine, salt)
    S = lambda **kw: dict(dict(auth=True, priv=priv, user="u", form="enc" if priv else "plain", ekey="Kp" if priv else "-", ptype="Response", vbs="evil", mac="stale", reqid=1, es="none"), **kw)
    a = parse_v3(authentic, decrypt=ag._decrypt)
    kx = xu.kauth(ag.engine)
    if kind == "bitflip":
        b = bytearray(authentic)
        b[bit // 8] ^= 1 << (bit % 8)
        return bytes(b), dict(bitflip=True)
    if kind == "flags0_plain":
        return msg(0, b"", scoped(pdu())), S(auth=False, priv=False, form="plain", ekey="-", mac="empty")
    if kind == "flags0_plain_keepdigest":
        return msg(0, a["auth"], scoped(pdu())), S(auth=False, priv=False, form="plain", ekey="-", mac="garbage")
    if kind in ("flags0_plain_err2", "flags0_plain_err5", "flags0_plain_err2_novb"):
        es = 5 if kind.endswith("err5") else 2
        return msg(0, b"", scoped(pdu(es=es, ei=1, vbs=[] if kind.endswith("novb") else None))), S(auth=False, priv=False, form="plain", ekey="-", mac="empty", es="other" if es == 5 else "noSuchName")
    if kind == "report_unauth_err2":
        return msg(0, b"", scoped(pdu(REPORT, es=2, ei=1))), S(auth=False, priv=False, form="plain", ekey="-", mac="empty", ptype="Report", es="noSuchName")
    if kind == "auth_only_plain_err2":
        return msg(1, a["auth"], scoped(pdu(es=2, ei=1))), S(priv=False, form="plain", ekey="-", mac="stale", es="noSuchName")
    if kind in ("flags0_plain_trap", "flags0_plain_inform", "flags0_plain_getreq", "flags0_plain_setreq"):
        pt = {"trap": TRAP2, "inform": 0xa6, "getreq": GET, "setreq": SET}[kind.rsplit("_", 1)[1]]
        return msg(0, b"", scoped(pdu(pt))), S(auth=False, priv=False, form="plain", ekey="-", mac="empty", ptype="Other")
    if kind == "flags4_plain":
        return msg(4, b"", scoped(pdu())), S(auth=False, priv=False, form="plain", ekey="-", mac="empty")
    if kind == "auth_only_plain":          # privacy credentials: keep auth flag, drop priv flag, plaintext, stale MAC
        return msg(1, a["auth"], scoped(pdu())), S(priv=False, form="plain", ekey="-", mac="stale")
    if kind == "empty_digest":
        return msg(lvl, b"", scoped(pdu()) if not priv else enc_str(a["cipher"]), salt=a["priv"]), S(mac="empty", vbs="evil" if not priv else "good")
    if kind == "short_digest":
        return msg(lvl, a["auth"][:4], scoped(pdu()) if not priv else enc_str(a["cipher"]), salt=a["priv"]), S(mac="short", vbs="evil" if not priv else "good")
    if kind == "zero_digest":
        return msg(lvl, b"\0" * 12, scoped(pdu()) if not priv else enc_str(a["cipher"]), salt=a["priv"]), S(mac="zero", vbs="evil" if not priv else "good")
    if kind == "garbage_digest":
        return msg(lvl, b"\xa5" * 12, scoped(pdu()) if not priv else enc_str(a["cipher"]), salt=a["priv"]), S(mac="garbage", vbs="evil" if not priv else "good")
    if kind == "foreign_key_sign":         # correct user name, signed with another user's key; privacy payload under the other user's key
        pl = scoped(pdu()) if not priv else enc_str(stream(xu.kpriv(ag.engine), b"saltsalt", scoped(pdu())))
        return signed(lvl, pl, kx, salt=b"saltsalt" if priv else b""), S(mac="Kx", ekey="Kx" if priv else "-")
    if kind == "foreign_user":
        pl = scoped(pdu()) if not priv else enc_str(stream(xu.kpriv(ag.engine), b"saltsalt", scoped(pdu())))
        return signed(lvl, pl, kx, user=xu.name, salt=b"saltsalt" if priv else b""), S(mac="Kx", user="x", ekey="Kx" if priv else "-")
    if kind == "foreign_user_err2":
        return signed(lvl & 1, scoped(pdu(es=2, ei=1)), kx, user=xu.name), S(priv=False, form="plain", ekey="-", mac="Kx", user="x", es="noSuchName")
    if kind == "foreign_user_plain_err2":
        return msg(0, b"", scoped(pdu(es=2, ei=1)), user=xu.name), S(auth=False, priv=False, form="plain", ekey="-", mac="empty", user="x", es="noSuchName")
    if kind == "foreign_engine":
        k2 = localised_key(HNAME[xu.auth[0]], xu.auth[1], OTHER_ENGINE)
        return signed(lvl & 1, scoped(pdu()), k2, engine=OTHER_ENGINE), S(priv=False, form="plain", ekey="-", mac="Kx")
    if kind == "wrong_localisation":       # the right password localised to another engine id
        k2 = localised_key(HNAME[u.auth[0]], u.auth[1], OTHER_ENGINE)
        return signed(lvl & 1, scoped(pdu()), k2), S(priv=False, form="plain", ekey="-", mac="Kx")
    if kind == "priv_flag_plain":          # priv flag set but the payload is a plaintext scoped PDU
        return msg(lvl | 2, a["auth"], scoped(pdu())), S(priv=True, form="plain", ekey="-", mac="stale")
    if kind == "nopriv_flag_cipher":       # priv flag cleared, payload stays the OCTET STRING
        return msg(lvl & 1, a["auth"], enc_str(a.get("cipher", b"abc"))), S(priv=False, form="enc", ekey="Kp" if priv else "Kx", mac="stale", vbs="good")
    if kind in ("flags2_cipher", "flags6_cipher"):      # priv bit without auth bit, attacker-chosen "ciphertext"
        fl = 2 if kind == "flags2_cipher" else 6
        return msg(fl, b"", enc_str(stream(xu.kpriv(ag.engine), b"saltsalt", scoped(pdu()))), salt=b"saltsalt"), S(auth=False, priv=True, form="enc", ekey="Kx", mac="empty")
    if kind in ("flags2_malleate", "flags6_malleate", "flags3_malleate_keepdigest"):
        # ciphertext malleability: flip one bit of the authentic ciphertext (stream / CFB ciphers pass it through to the plaintext)
        # and drop the authentication flag so that no digest would be checked
        if not priv:
            b = bytearray(authentic)
            b[-1] ^= 1
            return bytes(b), dict(bitflip=True)
        ct = bytearray(a["cipher"])
        ct[-1] ^= 1
        fl = {"flags2_malleate": 2, "flags6_malleate": 6, "flags3_malleate_keepdigest": 3}[kind]
        return msg(fl, a["auth"] if fl == 3 else b"", enc_str(bytes(ct)), salt=a["priv"]), dict(bitflip=True)
    if kind == "report_unauth_evil":
        return msg(0, b"", scoped(pdu(REPORT))), S(auth=False, priv=False, form="plain", ekey="-", mac="empty", ptype="Report")
    if kind == "report_unauth_stats":
        return msg(0, b"", scoped(pdu(REPORT, [(USM_STATS["wrongDigests"], enc_uint(1, 0x41))]))), S(auth=False, priv=False, form="plain", ekey="-", mac="empty", ptype="Report", vbs="usmStats")
    if kind == "report_stale_mac":
        return msg(1, a["auth"], scoped(pdu(REPORT))), S(priv=False, form="plain", ekey="-", mac="stale", ptype="Report")
    if kind == "digest_into_zero_run":     # copy the message's own digest over a run of zero octets elsewhere in the message
        b = bytearray(authentic)
        i = authentic.find(b"\0" * 12, a["auth_off"] + 12)
        if i < 0 or priv:
            b[-1] ^= 1
        else:
            b[i:i + 12] = a["auth"]
        return bytes(b), dict(bitflip=True)
    if kind == "truncate_tail":
        return authentic[:-1], dict(bitflip=True)
    if kind == "swap_pdu_keep_mac":
        return msg(lvl & 1, a["auth"], scoped(pdu())), S(priv=False, form="plain", ekey="-", mac="stale")
    if kind == "replay_other_reqid":
        return signed(lvl & 1, scoped(pdu(reqid=req["reqid"] + 1)), kx), S(priv=False, form="plain", ekey="-", mac="Kx", reqid=2)
    raise ValueError(kind)


async def run_family(level, h, op, attacks, zero_value=False):
    """one client/agent pair per (level, hash, op); every attack is applied to the authentic response of a fresh request"""
    import time as _t
    from puresnmp import Client
    sc = dict(level=level, hash=h, authpw=b"maplesyrup", privpw=b"privsecret")
    u = drv_usm.make_user(sc)
    xu = User(b"mallory", (h, b"attacker-auth-pw"), ("verifstream", b"attacker-priv-pw"))
    inst = PFX + (1, 1, 0)
    val = enc_str(b"\0" * 16) if zero_value else enc_str(b"authentic")
    ag = Agent({inst: val, PFX + (1, 2, 0): enc_int(7)}, users=[u], engine=ENGINE, boots=7, clock=lambda: 50000)
    state = dict(attack=None, bit=None, sym=None, reqs=0)

    async def sender(endpoint, packet, timeout=None, retries=None):
        raw = ag.handle(bytes(packet))
        req = ag.log[-1]
        if state["attack"] and req.get("engine") == ENGINE and req.get("verdict") == "ok":
            state["reqs"] += 1
            if state["reqs"] == 1:
                raw, state["sym"] = forge(state["attack"], ag, u, xu, req, raw, state["bit"])
                state["forged_len"] = len(raw)
        return raw
    import puresnmp.api.raw, puresnmp_plugins.security.usm  # noqa
    _clk = patched_clock(lambda: 50000)
    _clk.__enter__()
    out = []
    try:
        c = Client("192.0.2.1", drv_usm.make_creds(sc), sender=sender)
        base = result_repr(op, await do_op(c, op, inst))
        authentic_len = len(ag.log[-1]["reply_raw"])
        main_client = c
        for atk in attacks:
            kind, bit = atk if isinstance(atk, tuple) else (atk, None)
            state.update(attack=kind, bit=bit, sym=None, reqs=0)
            c = main_client
            if kind.startswith("disco_"):
                # a fresh client: its first exchange is the discovery, whose reply the attacker replaces
                es = 2 if kind.endswith("2") else 5
                dstate = dict(done=False)

                async def dsender(endpoint, packet, timeout=None, retries=None, _es=es, _d=dstate):
                    raw = ag.handle(bytes(packet))
                    q = ag.log[-1]
                    if q.get("engine") == b"" and not _d["done"]:
                        _d["done"] = True
                        state["reqs"] = 1
                        raw = build_v3(q["msgid"], 65507, 0, ag.engine, ag.boots, ag.engine_time(), b"", b"", b"",
                                       build_scoped(ag.engine, b"", build_pdu(REPORT, q.get("reqid", 0), _es, 1, [(USM_STATS["unknownEngineIDs"], enc_uint(1, 0x41))])))
                    return raw
                c = Client("192.0.2.1", drv_usm.make_creds(sc), sender=dsender)
                state["attack"] = None
                state["sym"] = dict(auth=False, priv=False, user="u", form="plain", ekey="-", ptype="Report", vbs="usmStats", mac="empty", reqid=1,
                                    es="noSuchName" if es == 2 else "other")
            try:
                with cpu_budget(5):
                    r = await do_op(c, op, inst)
                rr = result_repr(op, r)
                ret = dict(kind="result", cls="", same=rr == base)
            except CpuBudget:
                ret = dict(kind="hang", cls="CPU_BUDGET", same=False)
            except Exception as e:  # noqa
                ret = dict(kind="exc", cls=exc_name(e), same=False)
            sym = state["sym"] or dict(bitflip=True)
            out.append(dict(scenario=dict(level=level, hash=h, op=op, attack=kind, bit=bit if bit is not None else -1),
                            events=[dict(e="attack", level=level, kind=kind, sym=sym, ret=ret, reached=state["reqs"] >= 1)]))
            # the client must stay usable: an unattacked request right afterwards returns the authentic result
            state.update(attack=None)
            try:
                with cpu_budget(5):
                    ok = result_repr(op, await do_op(c, op, inst)) == base
            except (Exception, CpuBudget) as e:  # noqa
                ok = False
            out[-1]["events"][0]["usable_after"] = ok
    finally:
        _clk.__exit__(None, None, None)
    return out, authentic_len


async def run_overlap(level, h, attacks):
    """Two requests in flight on one client: the authentic response to the first is processed, then the forged response to the
    second - before any other request is encoded.  Per-message state kept per engine (or per client) goes stale exactly here."""
    from puresnmp import Client
    sc = dict(level=level, hash=h, authpw=b"maplesyrup", privpw=b"privsecret")
    u = drv_usm.make_user(sc)
    xu = User(b"mallory", (h, b"attacker-auth-pw"), ("verifstream", b"attacker-priv-pw"))
    a_inst, b_inst = PFX + (1, 1, 0), PFX + (1, 2, 0)
    ag = Agent({a_inst: enc_str(b"authentic"), b_inst: enc_int(7)}, users=[u], engine=ENGINE, boots=7, clock=lambda: 50000)
    st = dict(attack=None, n=0, a_done=None, both=None, sym=None, reached=False)

    async def sender(endpoint, packet, timeout=None, retries=None):
        raw = ag.handle(bytes(packet))
        req = ag.log[-1]
        if not st["attack"] or req.get("engine") != ENGINE or req.get("verdict") != "ok":
            return raw
        st["n"] += 1
        me = st["n"]
        if me == 2:
            st["both"].set()
        await st["both"].wait()                 # both requests are on the wire
        if me == 1:
            return raw                           # authentic response to the first request
        await st["a_done"].wait()                # ... fully processed by the client
        forged, st["sym"] = forge(st["attack"], ag, u, xu, req, raw, None)
        st["reached"] = True
        return forged
    import puresnmp.api.raw, puresnmp_plugins.security.usm  # noqa
    out = []
    with patched_clock(lambda: 50000):
        c = Client("192.0.2.1", drv_usm.make_creds(sc), sender=sender)
        base_b = result_repr("get", await c.get(OID(oidstr(b_inst))))
        for kind in attacks:
            st.update(attack=kind, n=0, a_done=asyncio.Event(), both=asyncio.Event(), sym=None, reached=False)

            async def first():
                try:
                    return await c.get(OID(oidstr(a_inst)))
                finally:
                    st["a_done"].set()

            async def second():
                await asyncio.sleep(0)
                return await c.get(OID(oidstr(b_inst)))
            try:
                with cpu_budget(5):
                    ra, rb = await asyncio.gather(first(), second(), return_exceptions=True)
                if isinstance(rb, BaseException):
                    ret = dict(kind="exc", cls=exc_name(rb), same=False)
                else:
                    ret = dict(kind="result", cls="", same=result_repr("get", rb) == base_b)
            except CpuBudget:
                ret = dict(kind="hang", cls="CPU_BUDGET", same=False)
            st.update(attack=None)
            try:
                ok = result_repr("get", await c.get(OID(oidstr(b_inst)))) == base_b
            except Exception:  # noqa
                ok = False
            out.append(dict(scenario=dict(level=level, hash=h, op="get", attack=kind, bit=-1, overlap=True),
                            events=[dict(e="attack", level=level, kind=kind, sym=st["sym"] or dict(bitflip=True), ret=ret, reached=st["reached"], usable_after=ok)]))
    return out


def run_families(fams):
    async def main():
        T = []
        for level, h, op, attacks, zero in fams:
            if op == "overlap":
                T.extend(await run_overlap(level, h, attacks))
                continue
            t, _ = await run_family(level, h, op, attacks, zero)
            T.extend(t)
        return T
    return asyncio.run(main())


def authentic_bits(level, h, op):
    async def main():
        _, n = await run_family(level, h, op, [])
        return n * 8
    return asyncio.run(main())
