"""Canonical abstract forms shared with spec/Ber.tla (DESIGN.md section 4): integers as minimal two's-complement
octet lists, OID sub-identifiers as base-128 digit lists, values as [tag number, canonical content]."""
from refber import TAGS, int_content


def canon_int(v: int):
    return list(int_content(v))


def digits128(n: int):
    d = [n & 0x7F]
    n >>= 7
    while n:
        d.append(n & 0x7F)
        n >>= 7
    return list(reversed(d))


def oid_digits(arcs):
    arcs = list(arcs)
    return [digits128(arcs[0] * 40 + arcs[1])] + [digits128(a) for a in arcs[2:]]


def val_form(kind: str, v):
    """(type name, python value) -> [tag number, canonical content]"""
    t = TAGS[kind]
    if kind in ("Integer", "Counter", "Gauge", "TimeTicks", "Counter64"):
        return [t, canon_int(v)]
    if kind in ("OctetString", "Opaque", "IpAddress"):
        return [t, list(bytes(v))]
    if kind == "ObjectIdentifier":
        return [t, oid_digits(v)]
    return [t, []]


CLASS_KIND = {"Integer": "Integer", "OctetString": "OctetString", "Null": "Null", "ObjectIdentifier": "ObjectIdentifier",
              "IpAddress": "IpAddress", "Counter": "Counter", "Gauge": "Gauge", "TimeTicks": "TimeTicks", "Opaque": "Opaque",
              "Counter64": "Counter64", "NoSuchObject": "NoSuchObject", "NoSuchInstance": "NoSuchInstance", "EndOfMibView": "EndOfMibView"}


def form_of_x690(obj):
    """what the caller holds -> [tag number, canonical content] (0 = a class the property does not know)"""
    name = type(obj).__name__
    kind = CLASS_KIND.get(name)
    if kind is None:
        return [0, [ord(c) for c in name[:20]]]
    v = obj.value
    if kind == "ObjectIdentifier":
        return val_form(kind, tuple(obj.nodes))
    if kind == "IpAddress":
        return val_form(kind, v.packed)
    if kind in ("Integer", "Counter", "Gauge", "TimeTicks", "Counter64"):
        if not isinstance(v, int):
            return [TAGS[kind], [ord(c) for c in repr(v)[:20]]]
        return val_form(kind, v)
    if kind in ("OctetString", "Opaque"):
        return val_form(kind, v)
    return [TAGS[kind], []]


def mk_x690_raw(kind, v):
    from x690.types import Integer, OctetString, ObjectIdentifier, Null
    from puresnmp.types import IpAddress, Counter, Gauge, TimeTicks, Opaque, Counter64
    from ipaddress import IPv4Address
    return {"Integer": Integer, "OctetString": OctetString, "Counter": Counter, "Gauge": Gauge, "TimeTicks": TimeTicks,
            "Opaque": Opaque, "Counter64": Counter64, "Null": lambda _: Null(),
            "ObjectIdentifier": lambda a: ObjectIdentifier(".".join(map(str, a))),
            "IpAddress": lambda b: IpAddress(IPv4Address(bytes(b)))}[kind](v)


def form_of_py(kind: str, v):
    """what a caller of the pythonic API holds for a value of SNMP type `kind` -> [tag number, canonical content];
    a Python value that is not the documented conversion of that type gives a form nothing equals"""
    from datetime import timedelta
    from ipaddress import IPv4Address
    bad = [0, [ord(c) for c in (type(v).__name__ + ":" + repr(v))[:24]]]
    if kind in ("Integer", "Counter", "Gauge", "Counter64"):
        return val_form(kind, v) if isinstance(v, int) and not isinstance(v, bool) else bad
    if kind == "TimeTicks":
        if not isinstance(v, timedelta) or v.microseconds % 10000:
            return bad
        return val_form(kind, v.days * 8640000 + v.seconds * 100 + v.microseconds // 10000)
    if kind in ("OctetString", "Opaque"):
        return val_form(kind, v) if isinstance(v, bytes) else bad
    if kind == "IpAddress":
        return val_form(kind, v.packed) if isinstance(v, IPv4Address) else bad
    if kind == "ObjectIdentifier":
        try:
            return val_form(kind, tuple(int(x) for x in v.strip(".").split("."))) if isinstance(v, str) else bad
        except ValueError:
            return bad
    return [TAGS[kind], []] if v is None else bad
