"""Driver for C15: each wrapper operation and the raw operation for the same exchange; deep type walk."""
from __future__ import annotations
import asyncio, json
from datetime import timedelta
from ipaddress import IPv4Address
from common import *
from absmap import enc_abs
from x690.types import ObjectIdentifier as OID


def tname(x):
    t = type(x)
    return t.__qualname__ if t.__module__ == "builtins" else t.__module__ + "." + t.__qualname__


def nodes(x, path="$"):
    """every node of a result with its type; dict keys included"""
    out = []
    if isinstance(x, dict):
        out.append(dict(path=path, kind="container", type=tname(x)))
        for k, v in x.items():
            out.append(dict(path=path + ".key", kind="key", type=tname(k)))
            out += nodes(v, path + "[%s]" % (k if isinstance(k, str) else repr(k))[:40])
    elif isinstance(x, (list, tuple)):
        out.append(dict(path=path, kind="container", type=tname(x)))
        for i, v in enumerate(x):
            out += nodes(v, path + "[%d]" % i)
    elif tname(x) == "puresnmp.util.BulkResult":
        out.append(dict(path=path, kind="container", type=tname(x)))
        out += nodes(x.scalars, path + ".scalars") + nodes(x.listing, path + ".listing")
    else:
        out.append(dict(path=path, kind="leaf", type=tname(x)))
    return out


def canon(x):
    """canonical serialisable form of a pythonic value (types included, so 0 != '0' != b'0')"""
    if isinstance(x, dict):
        return ["dict", [[canon(k), canon(v)] for k, v in x.items()]]
    if isinstance(x, (list, tuple)):
        return ["seq", [canon(v) for v in x]]
    if tname(x) == "puresnmp.util.BulkResult":
        return ["bulk", canon(x.scalars), canon(x.listing)]
    if isinstance(x, bool):
        return ["bool", str(x)]
    if isinstance(x, int):
        return ["int", str(x)]
    if isinstance(x, bytes):
        return ["bytes", x.hex()]
    if isinstance(x, str):
        return ["str", x]
    if x is None:
        return ["None"]
    if isinstance(x, timedelta):
        return ["timedelta", x.days, x.seconds, x.microseconds]
    if isinstance(x, IPv4Address):
        return ["ip", str(x)]
    return ["other", tname(x), repr(x)[:60]]


def conv(v):
    """the harness's own conversion of a raw value (by class name, never calling .pythonize())"""
    n = type(v).__name__
    if n in ("Integer", "Counter", "Gauge", "Counter64"):
        return int(v.value)
    if n in ("OctetString", "Opaque"):
        return bytes(v.value)
    if n == "ObjectIdentifier":
        return ".".join(str(a) for a in v.nodes)
    if n == "IpAddress":
        return IPv4Address(v.value.packed)
    if n == "TimeTicks":
        t = int(v.value)
        return timedelta(days=t // 8640000, seconds=(t % 8640000) // 100, microseconds=(t % 100) * 10000)
    if n in ("Null", "NoSuchObject", "NoSuchInstance", "EndOfMibView"):
        return None
    return ("unconvertible", n)


def oid_s(o):
    return ".".join(str(a) for a in o.nodes)


def conv_result(op, r):
    if op in ("get", "set"):
        return conv(r)
    if op == "getnext":
        return (oid_s(r.oid), conv(r.value))
    if op == "multiget":
        return [conv(v) for v in r]
    if op == "multiset":
        return {oid_s(k): conv(v) for k, v in r.items()}
    if op in ("walk", "multiwalk", "bulkwalk"):
        return [(oid_s(vb.oid), conv(vb.value)) for vb in r]
    if op == "bulkget":
        return ["bulk", {oid_s(k): conv(v) for k, v in r.scalars.items()}, {oid_s(k): conv(v) for k, v in r.listing.items()}]
    if op in ("table", "bulktable"):
        return [{k: (v if k == "0" else conv(v)) for k, v in row.items()} for row in r]
    raise ValueError(op)


def canon_want(op, w):
    if op == "bulkget":
        return ["bulk", canon(w[1]), canon(w[2])]
    if op in ("table", "bulktable"):
        # rows are unordered; and inside a row the key order is not part of the contract
        return ["rows", sorted(json.dumps(sorted(canon(r)[1])) for r in w)]
    return canon(w)


def canon_got(op, g):
    if op in ("table", "bulktable"):
        return ["rows", sorted(json.dumps(sorted(canon(r)[1])) for r in g)]
    return canon(g)


async def run_sequence(sc):
    """sc: db [[oid, [tag, tok]]...], calls: [dict(op=..., args...)], proto -> one trace with one event per call"""
    from puresnmp import PyWrapper
    from absmap import mk_x690
    proto = sc.get("proto", "v2c")
    ag = make_agent({conc(o): enc_abs(v) for o, v in sc["db"]}, proto)
    ag2 = make_agent({conc(o): enc_abs(v) for o, v in sc["db"]}, proto)
    c_raw = make_client(ag2, proto)
    w = PyWrapper(make_client(ag, proto))
    events = []
    for call in sc["calls"]:
        op = call["op"]
        so = [oidstr(conc(o)) for o in call.get("oids", [])]
        oo = [OID(s) for s in so]

        async def do(target, py):
            if op == "get":
                return await target.get(so[0] if py else oo[0])
            if op == "getnext":
                return await target.getnext(so[0] if py else oo[0])
            if op == "multiget":
                return await target.multiget(so if py else oo)
            if op == "set":
                return await target.set(so[0] if py else oo[0], mk_x690(call["vals"][0]))
            if op == "multiset":
                return await target.multiset({(s if py else o): mk_x690(v) for s, o, v in zip(so, oo, call["vals"])})
            if op == "walk":
                return [vb async for vb in target.walk(so[0] if py else oo[0])]
            if op == "multiwalk":
                return [vb async for vb in target.multiwalk(so if py else oo)]
            if op == "bulkwalk":
                return [vb async for vb in target.bulkwalk(so if py else oo, bulk_size=call["bulk"])]
            if op == "bulkget":
                n = call["nr"]
                return await target.bulkget((so if py else oo)[:n], (so if py else oo)[n:], call["bulk"])
            if op == "table":
                return await target.table(so[0] if py else oo[0])
            if op == "bulktable":
                return await target.bulktable(so[0] if py else oo[0], bulk_size=call["bulk"])
            raise ValueError(op)
        ev = dict(e="call", op=op, raw_failed=False, py_failed=False, nodes=[dict(path="$", kind="leaf", type="NoneType")], got="", want="")
        try:
            r = await do(c_raw, False)
            ev["want"] = json.dumps(canon_want(op, conv_result(op, r)))
        except Exception as e:  # noqa
            ev["raw_failed"] = True
            ev["raw_exc"] = exc_name(e)
        try:
            g = await do(w, True)
            ev["nodes"] = nodes(g)
            ev["got"] = json.dumps(canon_got(op, g))
        except Exception as e:  # noqa
            ev["py_failed"] = True
            ev["py_exc"] = exc_name(e)
        events.append(ev)
    return dict(scenario=dict(proto=proto, calls=sc["calls"], ndb=len(sc["db"])), events=events)


def run_all(S):
    async def main():
        return [await run_sequence(sc) for sc in S]
    return asyncio.run(main())
