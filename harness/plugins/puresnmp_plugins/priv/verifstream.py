"""Keyed, salted stream transform used by the verification harness as a privacy
plug-in (decrypt(encrypt(x)) = x).  Records its calls in CALLS."""
import hashlib
from typing import NamedTuple

IDENTIFIER = "verifstream"
IANA_ID = -99
CALLS = []
_COUNTER = [0]


class EncryptionResult(NamedTuple):
    encrypted_data: bytes
    priv_params: bytes


def keystream(key: bytes, salt: bytes, n: int) -> bytes:
    out = bytearray()
    c = 0
    while len(out) < n:
        out.extend(hashlib.sha256(key + b"|" + salt + b"|" + c.to_bytes(4, "big")).digest())
        c += 1
    return bytes(out[:n])


def transform(key: bytes, salt: bytes, data: bytes) -> bytes:
    return bytes(a ^ b for a, b in zip(data, keystream(key, salt, len(data))))


def encrypt_data(localised_key, engine_id, engine_boots, engine_time, data):
    _COUNTER[0] += 1
    salt = b"S" + _COUNTER[0].to_bytes(7, "big")
    out = transform(localised_key, salt, data)
    CALLS.append(dict(kind="encrypt", key=localised_key, engine=engine_id, boots=engine_boots,
                      time=engine_time, data=bytes(data), out=out, salt=salt))
    return EncryptionResult(out, salt)


def decrypt_data(localised_key, engine_id, engine_boots, engine_time, salt, data):
    out = transform(localised_key, salt, data)
    CALLS.append(dict(kind="decrypt", key=localised_key, engine=engine_id, boots=engine_boots,
                      time=engine_time, data=bytes(data), out=out, salt=salt))
    return out
