"""A second privacy plug-in of the verification harness: a keyed, salted *block* transform (block size 8, zero padding, like
DES-CBC in RFC 3414 section 8.1.1.2).  decrypt(encrypt(x)) = x followed by the padding octets, which is what real block-cipher
plug-ins return - the client has to tolerate octets behind the scoped PDU.  Records its calls in CALLS (shared with verifstream)."""
from typing import NamedTuple
from puresnmp_plugins.priv import verifstream as _vs

IDENTIFIER = "verifblock"
IANA_ID = -98
CALLS = _vs.CALLS
_COUNTER = [0]


class EncryptionResult(NamedTuple):
    encrypted_data: bytes
    priv_params: bytes


def encrypt_data(localised_key, engine_id, engine_boots, engine_time, data):
    _COUNTER[0] += 1
    salt = b"B" + _COUNTER[0].to_bytes(7, "big")
    padded = bytes(data) + b"\x00" * (-len(data) % 8)
    out = _vs.transform(localised_key, salt, padded)
    CALLS.append(dict(kind="encrypt", key=localised_key, engine=engine_id, boots=engine_boots, time=engine_time, data=bytes(data), out=out, salt=salt))
    return EncryptionResult(out, salt)


def decrypt_data(localised_key, engine_id, engine_boots, engine_time, salt, data):
    out = _vs.transform(localised_key, salt, data)
    CALLS.append(dict(kind="decrypt", key=localised_key, engine=engine_id, boots=engine_boots, time=engine_time, data=bytes(data), out=out, salt=salt))
    return out
