"""The check framework: runs a property module, applies known findings, writes
evidence and replay files, prints VIOLATION / KNOWN-FINDING lines, sets the exit code.

exit 0  the property held on everything explored (or only listed known findings failed)
exit 1  at least one verdict names a property clause  ->  VIOLATION property=<id> replay=<path>
exit 2  machinery failure (harness / TLC / environment) - never reported as a violation
"""
from __future__ import annotations
import importlib, json, os, subprocess, sys, time, traceback

HERE = os.path.dirname(os.path.abspath(__file__))
VERIF = os.path.dirname(HERE)
sys.path.insert(0, HERE)
import tlc  # noqa

EVID = os.path.join(VERIF, "evidence")
REPLAY = os.path.join(VERIF, "replay")
KNOWN = os.path.join(VERIF, "known_findings.json")


class Ctx:
    """what a property module gets: tier, seed, and helpers that collect the evidence"""

    def __init__(self, pid, tier, seed):
        self.pid, self.tier, self.seed = pid, tier, seed
        self.quick = tier == "quick"
        self.mc_runs = []
        self.states = 0
        self.transitions = 0
        self.traces = 0
        self.evaluations = 0
        self.nontrivial = set()
        self.samples = []
        self.violations = []       # dict(clause=, at=, signature=, trace=)
        self.notes = []
        self.drift = [0, 0]        # [drifting traces, traces with an implementation-shaped prediction]
        self.assumptions = []
        self.rule = ""
        self.exhaustive = False
        self.extra = {}
        self.machinery = []

    # ---------------------------------------------------------------- TLC model checking
    def model_check(self, module, name, *, constants=None, invariants=(), constraints=(), properties=(),
                    expect=None, workers=16, timeout=1500, must_cover=(), spec="Spec", view=None, simulate=None):
        """Run TLC.  expect=None: must pass.  expect=[names]: self-test that MUST violate one of them."""
        cfg = tlc.write_cfg("%s_%s" % (self.pid, name), constants=constants, invariants=invariants,
                            constraints=constraints, properties=properties, spec=spec, view=view)
        r = tlc.run(module, cfg, workers=workers, timeout=timeout, coverage=bool(must_cover), simulate=simulate)
        rec = dict(name=name, module=module, generated=r["generated"], distinct=r["distinct"], depth=r["depth"],
                   wall_s=round(r["wall"], 1), violated=r["violated"], invariants=list(invariants) + list(properties))
        if expect is None:
            if r["violated"] or (r["rc"] != 0):
                if not r["violated"]:
                    raise tlc.TlcFailure("TLC failed on %s/%s rc=%s:\n%s" % (module, name, r["rc"], r["out"][-3000:]))
                path = self.write_replay("model-%s" % name, dict(kind="tlc-counterexample", module=module, config=name,
                                                                  violated=r["violated"], constants={k: str(v) for k, v in (constants or {}).items()},
                                                                  states=tlc.counterexample(r["out"])))
                self.violations.append(dict(clause="model:" + ",".join(r["violated"]), at=0, signature=dict(model=name),
                                            replay=path))
            self.states += r["distinct"]
            self.transitions += r["generated"]
            for a in must_cover:
                if r.get("coverage", {}).get(a, 0) == 0:
                    self.machinery.append("vacuity: action %s of %s/%s was never taken" % (a, module, name))
        else:
            rec["selftest"] = True
            if not (set(expect) & set(r["violated"])):
                self.machinery.append("self-test %s/%s: expected a violation of %s, got %s" % (module, name, expect, r["violated"]))
        self.mc_runs.append(rec)
        return r

    # ---------------------------------------------------------------- trace validation
    def validate(self, module, traces, *, name=None, chunk=None, workers=16, env=None, timeout=1800, constants=None, spec="Spec"):
        cfg = tlc.write_cfg("%s_trace_%s" % (self.pid, module), constants=constants, spec=spec)
        r = tlc.validate_traces(module, cfg, traces, name=name or self.pid, workers=workers, chunk=chunk, env=env, timeout=timeout)
        self.states += r["distinct"]
        self.transitions += r["generated"]
        self.traces += len(traces)
        return r["verdicts"]

    def judge(self, traces, verdicts, *, signature, nontrivial=None, drift_index=None, sample_every=None):
        """verdicts: {tid(1-based): [clause, event index, ...]}.  MACHINERY_* clauses are machinery failures."""
        first_ok = None
        for tid in sorted(verdicts):
            v = verdicts[tid]
            tr = traces[tid - 1]
            clause = v[0]
            if drift_index is not None:
                self.drift[1] += 1
                if v[drift_index]:
                    self.drift[0] += 1
            if clause == "ok":
                if first_ok is None:
                    first_ok = tr
                if nontrivial is not None:
                    k = nontrivial(tr, v)
                    if k is not None:
                        self.nontrivial.add(k)
                continue
            if clause.startswith("MACHINERY"):
                self.machinery.append("%s at event %s of trace %s" % (clause, v[1], json.dumps(tr)[:600]))
                continue
            self.violations.append(dict(clause=clause, at=v[1], signature=signature(tr, v), trace=tr))
        if first_ok is not None and len(self.samples) < 3:
            self.samples.append(_shrink(first_ok))

    def add_sample(self, x):
        if len(self.samples) < 4:
            self.samples.append(_shrink(x))

    def write_replay(self, tag, obj):
        os.makedirs(REPLAY, exist_ok=True)
        path = os.path.join(REPLAY, "%s-%s.json" % (self.pid, tag))
        with open(path, "w") as f:
            json.dump(obj, f, indent=1, default=str)
        return os.path.relpath(path, VERIF)


def _shrink(x, limit=1500):
    s = json.dumps(x, default=str)
    if len(s) <= limit:
        return x
    return dict(truncated=s[:limit])


def load_known():
    if not os.path.exists(KNOWN):
        return []
    return json.load(open(KNOWN)).get("findings", [])


def matches(finding, pid, v):
    if finding.get("status") != "known" or finding.get("property") != pid:
        return False
    if finding.get("clause") != v["clause"]:
        return False
    sig = v.get("signature", {})
    return all(sig.get(k) == val for k, val in finding.get("signature", {}).items())


LEVELS = {}


def run_check(pid, tier, replay=None):
    seed = int(os.environ.get("VERIF_SEED", "0") or 0)
    t0 = time.time()
    mod = importlib.import_module("props.%s" % pid.lower())
    ctx = Ctx(pid, tier, seed)
    level = getattr(mod, "LEVEL", "model_checking")
    ev_path = os.path.join(EVID, "%s.json" % pid)
    if not replay and os.path.isdir(REPLAY):
        for f in os.listdir(REPLAY):          # replays of an earlier run of this check are stale
            if f.startswith(pid + "-"):
                os.remove(os.path.join(REPLAY, f))
    import signal

    class Watchdog(Exception):
        pass

    def on_alarm(*a):
        raise Watchdog("check exceeded its wall-clock watchdog")
    signal.signal(signal.SIGALRM, on_alarm)
    signal.alarm(int(os.environ.get("VERIF_WATCHDOG_S", "1200" if tier == "quick" else "14400")))
    try:
        if replay:
            mod.replay(ctx, replay)
        else:
            mod.run(ctx)
        signal.alarm(0)
    except Exception as e:  # machinery failure
        signal.alarm(0)
        tb = traceback.format_exc()
        print(tb[-1500:] if not isinstance(e, tlc.TlcFailure) else "")
        print("MACHINERY-FAILURE property=%s %s: %s" % (pid, type(e).__name__, str(e)[-2500:]))
        return 2
    known = load_known()
    reported = {}
    known_hit = {}
    for v in ctx.violations:
        f = next((f for f in known if matches(f, pid, v)), None)
        if f is not None:
            known_hit.setdefault(f["id"], [f, 0])[1] += 1
            continue
        key = (v["clause"], json.dumps(v.get("signature", {}), sort_keys=True))
        if key not in reported:
            path = v.get("replay") or ctx.write_replay("%s-%d" % (v["clause"].replace(":", "_").replace(",", "_")[:40], len(reported)),
                                                       dict(property=pid, clause=v["clause"], at_event=v["at"], signature=v.get("signature"),
                                                            trace=v.get("trace")))
            reported[key] = [path, 0]
        reported[key][1] += 1
    for fid, (f, n) in known_hit.items():
        print("KNOWN-FINDING: property=%s %s (%d occurrence(s) this run)" % (pid, f["text"], n))
    for (clause, sig), (path, n) in reported.items():
        print("VIOLATION property=%s replay=%s clause=%s occurrences=%d signature=%s" % (pid, path, clause, n, sig))
    for m in ctx.machinery[:10]:
        print("MACHINERY-FAILURE property=%s %s" % (pid, m))
    if ctx.drift[0]:
        print("NOTE spec-drift property=%s: %d of %d traces no longer follow the implementation-shaped specification; "
              "the exhaustive TLC result does not transfer to the code as it is" % (pid, ctx.drift[0], ctx.drift[1]))
    for n in ctx.notes:
        print("NOTE", n)
    cov = dict(evaluations=max(1, ctx.evaluations), distinct_nontrivial=len(ctx.nontrivial) if ctx.nontrivial else ctx.extra.pop("distinct_nontrivial", 0),
               rule=ctx.rule, samples=ctx.samples or ["(no sample)"], states=ctx.states, transitions=ctx.transitions,
               traces_validated_against_impl=ctx.traces, exhaustive=ctx.exhaustive, model_checking_runs=ctx.mc_runs,
               impl_conformance=dict(traces_with_prediction=ctx.drift[1], drifting=ctx.drift[0]),
               known_findings_hit={k: n for k, (f, n) in known_hit.items()})
    cov.update(ctx.extra)
    ev = dict(property_id=pid, tier=tier, seed=seed, level=level, coverage=cov, assumptions=ctx.assumptions,
              wall_s=round(time.time() - t0, 1), violations=sum(n for _, n in reported.values()))
    os.makedirs(EVID, exist_ok=True)
    with open(ev_path, "w") as f:
        json.dump(ev, f, indent=1, default=str)
    # schema validation with the tooling venv (jsonschema is not in /venv)
    try:
        p = subprocess.run(["python3-vt", "-c",
                            "import json,sys,jsonschema; jsonschema.validate(json.load(open(sys.argv[1])), json.load(open(sys.argv[2])))",
                            ev_path, "/root/.vp/EVIDENCE.schema.json"], capture_output=True, text=True, timeout=60)
        if p.returncode != 0 and "No such file" not in p.stderr:
            print("MACHINERY-FAILURE property=%s evidence does not validate: %s" % (pid, p.stderr[-500:]))
            return 2
    except FileNotFoundError:
        pass
    print("%s tier=%s seed=%d: %d scenarios replayed, %d traces validated by TLC, %d states, %d violation(s), %d known, %.1fs" % (
        pid, tier, seed, ctx.evaluations, ctx.traces, ctx.states, ev["violations"], sum(n for _, n in known_hit.values()), time.time() - t0))
    if ctx.machinery:
        return 2
    return 1 if reported else 0


def apalache_inductive(ctx, module_path, init="Init", indinit="IndInit", inv="IndInv", implied=()):
    """Discharge an inductive invariant with Apalache (unbounded integers): Init => Inv (length 0), Inv /\\ Next => Inv' (length 1),
    and for every `implied` property Inv => P.  Recorded in the evidence as obligations; a failure is a VIOLATION of the design."""
    import shutil, tempfile
    out = tempfile.mkdtemp(prefix="apa-", dir=tlc.WORK)
    runs = [("base", ["--init=" + init, "--inv=" + inv, "--length=0"]), ("step", ["--init=" + indinit, "--inv=" + inv, "--length=1"])]
    runs += [("implies:" + p, ["--init=" + indinit, "--inv=" + p, "--length=1"]) for p in implied]
    ok = 0
    try:
        for name, args in runs:
            p = subprocess.run(["timeout", "600", "apalache-mc", "check"] + args + ["--out-dir=" + out, os.path.basename(module_path)],
                               cwd=os.path.dirname(module_path), capture_output=True, text=True)
            good = "EXITCODE: OK" in p.stdout
            ctx.mc_runs.append(dict(name="apalache:" + name, module=os.path.basename(module_path), ok=good))
            if good:
                ok += 1
            elif "EXITCODE: ERROR (12)" in p.stdout or "Found" in p.stdout and "error" in p.stdout:
                ctx.violations.append(dict(clause="model:apalache:" + name, at=0, signature=dict(model=os.path.basename(module_path)), trace=dict(output=p.stdout[-1500:])))
            else:
                ctx.machinery.append("apalache %s failed: %s" % (name, p.stdout[-600:]))
    finally:
        shutil.rmtree(out, ignore_errors=True)
    ctx.extra["apalache_obligations"] = len(runs)
    ctx.extra["apalache_discharged"] = ok
