"""Reference BER codec for the verification harness.

Written from X.690 / RFC 1157 / RFC 3416 / RFC 3412 / RFC 3414 with no import of
x690 or puresnmp.  It only makes the *environment* executable (the reference
agent has to read what the client sends and to produce responses in chosen
length forms).  It is not the oracle: datagrams are also logged as bytes and
re-decoded by spec/Ber.tla under TLC.
"""
from __future__ import annotations

# ---------------------------------------------------------------- encoding
def enc_len(n: int, form: int | None = None) -> bytes:
    """form None = minimal; form k>=1 = long form with exactly k length octets."""
    if form is None:
        if n < 128:
            return bytes([n])
        b = n.to_bytes((n.bit_length() + 7) // 8, "big")
        return bytes([0x80 | len(b)]) + b
    while n >= 256 ** form:          # the requested number of length octets cannot hold n: take the next one that can
        form += 1
    b = n.to_bytes(form, "big")
    return bytes([0x80 | form]) + b


def tlv(tag: int, content: bytes, form: int | None = None) -> bytes:
    return bytes([tag]) + enc_len(len(content), form) + content


def int_content(v: int) -> bytes:
    if v >= 0:
        n = max(1, (v.bit_length() + 8) // 8)
    else:
        n = max(1, ((-v - 1).bit_length() + 8) // 8)
    return v.to_bytes(n, "big", signed=True)


def enc_int(v: int, tag: int = 0x02, form=None) -> bytes:
    return tlv(tag, int_content(v), form)


def enc_uint(v: int, tag: int, form=None) -> bytes:
    """unsigned application types: content is the non-negative integer, minimal two's complement"""
    return tlv(tag, int_content(v), form)


def oid_content(arcs) -> bytes:
    arcs = list(arcs)
    out = bytearray()
    first = arcs[0] * 40 + arcs[1]
    for a in [first] + arcs[2:]:
        chunk = [a & 0x7F]
        a >>= 7
        while a:
            chunk.append((a & 0x7F) | 0x80)
            a >>= 7
        out.extend(reversed(chunk))
    return bytes(out)


def enc_oid(arcs, form=None) -> bytes:
    return tlv(0x06, oid_content(arcs), form)


def enc_str(b: bytes, tag: int = 0x04, form=None) -> bytes:
    return tlv(tag, bytes(b), form)


def seq(*items: bytes, tag: int = 0x30, form=None) -> bytes:
    return tlv(tag, b"".join(items), form)


NULL = b"\x05\x00"
NOSUCHOBJ = b"\x80\x00"
NOSUCHINST = b"\x81\x00"
EOMV = b"\x82\x00"

TAGS = {
    "Integer": 0x02, "OctetString": 0x04, "Null": 0x05, "ObjectIdentifier": 0x06,
    "IpAddress": 0x40, "Counter": 0x41, "Gauge": 0x42, "TimeTicks": 0x43,
    "Opaque": 0x44, "Counter64": 0x46,
    "NoSuchObject": 0x80, "NoSuchInstance": 0x81, "EndOfMibView": 0x82,
}
TAGNAME = {v: k for k, v in TAGS.items()}


def enc_value(kind: str, v=None, form=None) -> bytes:
    """Encode an abstract value (kind, python value)."""
    t = TAGS[kind]
    if kind == "Integer":
        return enc_int(v, form=form)
    if kind in ("Counter", "Gauge", "TimeTicks", "Counter64"):
        return enc_uint(v, t, form)
    if kind in ("OctetString", "Opaque"):
        return enc_str(v, t, form)
    if kind == "IpAddress":
        return enc_str(bytes(v), t, form)
    if kind == "ObjectIdentifier":
        return enc_oid(v, form)
    return tlv(t, b"", form)


# ---------------------------------------------------------------- decoding
class BerError(Exception):
    pass


def dec_tlv(data: bytes, i: int = 0, end: int | None = None):
    """-> (tag, content_start, content_end, next)   definite lengths only"""
    end = len(data) if end is None else end
    if i + 2 > end:
        raise BerError("truncated header")
    tag = data[i]
    if tag & 0x1F == 0x1F:
        raise BerError("multi-octet tag")
    l0 = data[i + 1]
    j = i + 2
    if l0 & 0x80:
        n = l0 & 0x7F
        if n == 0 or l0 == 0xFF:
            raise BerError("indefinite / reserved length")
        if j + n > end:
            raise BerError("truncated length")
        ln = int.from_bytes(data[j:j + n], "big")
        j += n
    else:
        ln = l0
    if j + ln > end:
        raise BerError("content overruns")
    return tag, j, j + ln, j + ln


def kids(data: bytes, s: int, e: int):
    out = []
    i = s
    while i < e:
        hs = i
        tag, cs, ce, i = dec_tlv(data, i, e)
        out.append((tag, cs, ce, hs))
    return out


def dec_int(c: bytes) -> int:
    if not c:
        raise BerError("empty integer")
    return int.from_bytes(c, "big", signed=True)


def dec_uint(c: bytes) -> int:
    if not c:
        raise BerError("empty integer")
    return int.from_bytes(c, "big", signed=False)


def dec_oid(c: bytes):
    if not c:
        raise BerError("empty oid")
    subs = []
    v = 0
    for b in c:
        v = (v << 7) | (b & 0x7F)
        if not b & 0x80:
            subs.append(v)
            v = 0
    if c[-1] & 0x80:
        raise BerError("unterminated sub-identifier")
    f = subs[0]
    if f < 40:
        a, b = 0, f
    elif f < 80:
        a, b = 1, f - 40
    else:
        a, b = 2, f - 80
    return (a, b) + tuple(subs[1:])


def dec_value(tag: int, c: bytes):
    kind = TAGNAME.get(tag)
    if kind is None:
        return ("Unknown:%d" % tag, bytes(c))
    if kind == "Integer":
        return (kind, dec_int(c))
    if kind in ("Counter", "Gauge", "TimeTicks", "Counter64"):
        return (kind, dec_uint(c))
    if kind in ("OctetString", "Opaque", "IpAddress"):
        return (kind, bytes(c))
    if kind == "ObjectIdentifier":
        return (kind, dec_oid(c))
    return (kind, None)


def parse_pdu(data: bytes, tag: int, cs: int, ce: int) -> dict:
    f = kids(data, cs, ce)
    if len(f) != 4 or [x[0] for x in f[:3]] != [2, 2, 2] or f[3][0] != 0x30:
        raise BerError("pdu shape")
    vbs = []
    for t, s, e, _ in kids(data, f[3][1], f[3][2]):
        if t != 0x30:
            raise BerError("varbind tag")
        k = kids(data, s, e)
        if len(k) != 2 or k[0][0] != 6:
            raise BerError("varbind shape")
        vbs.append((dec_oid(data[k[0][1]:k[0][2]]), k[1][0], data[k[1][1]:k[1][2]]))
    return dict(ptype=tag, reqid=dec_int(data[f[0][1]:f[0][2]]), f1=dec_int(data[f[1][1]:f[1][2]]),
                f2=dec_int(data[f[2][1]:f[2][2]]), vbs=vbs)


def parse_community(packet: bytes) -> dict:
    tag, cs, ce, nx = dec_tlv(packet)
    if tag != 0x30 or nx != len(packet):
        raise BerError("top")
    k = kids(packet, cs, ce)
    if len(k) != 3 or k[0][0] != 2 or k[1][0] != 4:
        raise BerError("message shape")
    out = parse_pdu(packet, k[2][0], k[2][1], k[2][2])
    out.update(version=dec_int(packet[k[0][1]:k[0][2]]), community=packet[k[1][1]:k[1][2]])
    return out


def parse_v3(packet: bytes, decrypt=None) -> dict:
    """decrypt(secparams dict, ciphertext) -> plaintext scoped pdu bytes (when flags.priv)"""
    tag, cs, ce, nx = dec_tlv(packet)
    if tag != 0x30 or nx != len(packet):
        raise BerError("top")
    m = kids(packet, cs, ce)
    if len(m) != 4 or m[0][0] != 2 or m[1][0] != 0x30 or m[2][0] != 4:
        raise BerError("message shape")
    hd = kids(packet, m[1][1], m[1][2])
    if [x[0] for x in hd] != [2, 2, 4, 2]:
        raise BerError("header shape")
    sp_t, sp_s, sp_e, sp_n = dec_tlv(packet, m[2][1], m[2][2])
    if sp_t != 0x30 or sp_n != m[2][2]:
        raise BerError("secparams wrapper")
    us = kids(packet, sp_s, sp_e)
    if [x[0] for x in us] != [4, 2, 2, 4, 4, 4]:
        raise BerError("usm shape")
    g = lambda x: packet[x[1]:x[2]]
    flags = g(hd[2])
    if len(flags) != 1:
        raise BerError("flags")
    out = dict(version=dec_int(g(m[0])), msgid=dec_int(g(hd[0])), maxsize=dec_int(g(hd[1])), flags=flags[0],
               secmodel=dec_int(g(hd[3])), engine=g(us[0]), boots=dec_int(g(us[1])), time=dec_int(g(us[2])),
               user=g(us[3]), auth=g(us[4]), priv=g(us[5]), auth_off=us[4][1], raw=packet)
    if flags[0] & 2:
        if m[3][0] != 4:
            raise BerError("encrypted payload must be OCTET STRING")
        out["cipher"] = g(m[3])
        if decrypt is None:
            return out
        plain = decrypt(out, out["cipher"])
        t, s, e, n = dec_tlv(plain)          # trailing padding permitted
        if t != 0x30:
            raise BerError("scoped pdu tag")
        body, bs, be = plain, s, e
        out["spdu_plain"] = plain[:n]
    else:
        if m[3][0] != 0x30:
            raise BerError("scoped pdu tag")
        body, bs, be = packet, m[3][1], m[3][2]
        out["spdu_plain"] = packet[m[3][3]:m[3][2]]
    sc = kids(body, bs, be)
    if len(sc) != 3 or sc[0][0] != 4 or sc[1][0] != 4:
        raise BerError("scoped shape")
    out.update(ctxengine=body[sc[0][1]:sc[0][2]], ctxname=body[sc[1][1]:sc[1][2]])
    out.update(parse_pdu(body, sc[2][0], sc[2][1], sc[2][2]))
    return out


# ---------------------------------------------------------------- builders
def build_pdu(ptype: int, reqid: int, f1: int, f2: int, vbs, forms=None) -> bytes:
    """vbs: list of (oid arcs, encoded value bytes)"""
    fm = forms or {}
    body = b"".join(seq(enc_oid(o, fm.get("oid")), v, form=fm.get("vb")) for o, v in vbs)
    return seq(enc_int(reqid, form=fm.get("int")), enc_int(f1, form=fm.get("int")), enc_int(f2, form=fm.get("int")),
               seq(body, form=fm.get("vbl")), tag=ptype, form=fm.get("pdu"))


def build_community(version: int, community: bytes, pdu: bytes, forms=None) -> bytes:
    fm = forms or {}
    return seq(enc_int(version, form=fm.get("int")), enc_str(community, form=fm.get("str")), pdu, form=fm.get("top"))


def build_v3(msgid, maxsize, flags, engine, boots, time, user, auth, priv, payload: bytes, forms=None) -> bytes:
    """payload: already encoded scoped PDU sequence (plaintext) or OCTET STRING (ciphertext)
    forms keys: top, ver, hdr, hf (every header field), spw, usm, uf_engine uf_boots uf_time uf_user uf_auth uf_priv"""
    fm = forms or {}
    sp = seq(enc_str(engine, form=fm.get("uf_engine")), enc_int(boots, form=fm.get("uf_boots")), enc_int(time, form=fm.get("uf_time")),
             enc_str(user, form=fm.get("uf_user")), enc_str(auth, form=fm.get("uf_auth")), enc_str(priv, form=fm.get("uf_priv")), form=fm.get("usm"))
    hf = fm.get("hf")
    hdr = seq(enc_int(msgid, form=hf), enc_int(maxsize, form=hf), enc_str(bytes([flags]), form=hf), enc_int(3, form=hf), form=fm.get("hdr"))
    return seq(enc_int(3, form=fm.get("ver")), hdr, enc_str(sp, form=fm.get("spw")), payload, form=fm.get("top"))


def build_scoped(ctxengine: bytes, ctxname: bytes, pdu: bytes, forms=None) -> bytes:
    fm = forms or {}
    return seq(enc_str(ctxengine, form=fm.get("sf")), enc_str(ctxname, form=fm.get("sf")), pdu, form=fm.get("spdu"))
