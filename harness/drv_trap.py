"""Driver for C19: words of datagrams fed to the listener that register_trap_callback sets up
(through the real SNMPTrapReceiverProtocol, captured by substituting puresnmp.api.raw.listen), and through a real
loopback UDP socket."""
from __future__ import annotations
import asyncio, socket
from common import *
from berforms import form_of_x690, oid_digits
from refber import TAGS

UPTIME = (1, 3, 6, 1, 2, 1, 1, 3, 0)
TRAPOID = (1, 3, 6, 1, 6, 3, 1, 1, 4, 1, 0)
SRC = {"s4max": ("192.0.2.7", 65535), "s4min": ("192.0.2.8", 1), "s6max": ("2001:db8::9", 65535, 0, 0), "s4": ("192.0.2.7", 4242), "s4b": ("198.51.100.9", 162), "s6": ("2001:db8::7", 4242, 0, 0), "s6ll": ("fe80::1", 50000, 0, 3)}


def notification(community: bytes, payload, reqid=77, version=1, ptype=TRAP2):
    vbs = [(UPTIME, enc_uint(12345, 0x43)), (TRAPOID, enc_oid((1, 3, 6, 1, 4, 1, 8072, 2, 3, 0, 1)))] + list(payload)
    return build_community(version, community, build_pdu(ptype, reqid, 0, 0, vbs))


def abs_trap(trap):
    vbs = []
    for vb in trap.value.varbinds:
        f = form_of_x690(vb.value)
        vbs.append([oid_digits(tuple(vb.oid.nodes)), f[0], f[1]])
    src = trap.source
    out = dict(origin=[src.address, src.port] if src is not None else ["", 0], vbs=vbs)
    # the pythonic view of the same notification (puresnmp.api.pythonic.TrapInfo)
    try:
        from puresnmp.api.pythonic import TrapInfo
        ti = TrapInfo(trap)
        up = ti.uptime
        out["info"] = dict(origin=ti.origin, oid=oid_digits(tuple(int(x) for x in ti.oid.split("."))),
                           uptime=[up.days, up.seconds, up.microseconds], keys=[oid_digits(tuple(int(x) for x in k.split("."))) for k in ti.values])
    except Exception as e:  # noqa
        out["info"] = dict(origin="?" + exc_name(e), oid=[], uptime=[0, 0, 0], keys=[])
    return out


def run_word(word, community="public", mode="protocol", debuglog=False):
    """word: list of dict(kind, raw bytes, src key)"""
    with debug_logging(debuglog):
        t = _run_word(word, community, "protocol" if mode == "burst" else mode, burst=(mode == "burst"))
    if mode == "burst":
        t["scenario"]["mode"] = "burst"
    if debuglog:
        t["scenario"]["debuglog"] = True
    return t


def _run_word(word, community="public", mode="protocol", burst=False):
    import puresnmp.api.raw as RAW
    from puresnmp.transport import SNMPTrapReceiverProtocol
    from puresnmp import V2C
    events = []
    loop = asyncio.new_event_loop()
    captured = {}
    real_listen = RAW.listen

    async def fake_listen(bind_address, port, callback, loop_):
        captured["proto"] = SNMPTrapReceiverProtocol(callback)
    got = []

    async def user_callback(trap):
        if burst:
            await asyncio.sleep(0.001)          # a callback that really suspends (I/O) before it is done with the notification
        got.append(trap)
    try:
        if mode == "protocol":
            RAW.listen = fake_listen
            RAW.register_trap_callback(user_callback, "127.0.0.1", 16299, V2C(community), loop)
            proto = captured["proto"]

            async def feed_burst():
                # all datagrams are read in ONE event-loop iteration (a burst), then the loop runs until everything is delivered
                for d in word:
                    try:
                        with cpu_budget(4, mem_bytes=4 << 30):
                            proto.datagram_received(bytes(d["raw"]), SRC[d["src"]])
                        raised = ""
                    except (CpuBudget, MemoryError):
                        raised = "CPU_BUDGET"
                    except Exception as e:  # noqa
                        raised = exc_name(e)
                    events.append(dict(e="dgram", kind=d["kind"], raw=list(d["raw"]), src=list(SRC[d["src"]][:2]), raised=raised))
                for _ in range(40):
                    await asyncio.sleep(0.002)
                for t in got:
                    try:
                        events.append(dict(e="callback", **abs_trap(t)))
                    except Exception as e:  # noqa
                        events.append(dict(e="callback", origin=["?", 0], vbs=[[[0], 0, [ord(c) for c in exc_name(e)]]]))

            async def feed():
                if burst:
                    return await feed_burst()
                for d in word:
                    n0 = len(got)
                    try:
                        with cpu_budget(4, mem_bytes=4 << 30):      # a listener that spins on one datagram never delivers the next one
                            proto.datagram_received(bytes(d["raw"]), SRC[d["src"]])
                            for _ in range(3):
                                await asyncio.sleep(0)
                        raised = ""
                    except CpuBudget:
                        raised = "CPU_BUDGET"
                    except MemoryError:
                        raised = "CPU_BUDGET"
                    except Exception as e:  # noqa
                        raised = exc_name(e)
                    for _ in range(3):
                        await asyncio.sleep(0)
                    events.append(dict(e="dgram", kind=d["kind"], raw=list(d["raw"]), src=list(SRC[d["src"]][:2]), raised=raised))
                    for t in got[n0:]:
                        try:
                            events.append(dict(e="callback", **abs_trap(t)))
                        except Exception as e:  # noqa
                            events.append(dict(e="callback", origin=["?", 0], vbs=[[[0], 0, [ord(c) for c in exc_name(e)]]]))
            loop.run_until_complete(feed())
        else:
            # real UDP socket on the loopback interface, ephemeral port
            s = socket.socket(socket.AF_INET, socket.SOCK_DGRAM)
            s.bind(("127.0.0.1", 0))
            port = s.getsockname()[1]
            s.close()
            RAW.register_trap_callback(user_callback, "127.0.0.1", port, V2C(community), loop)
            out = socket.socket(socket.AF_INET, socket.SOCK_DGRAM)
            out.bind(("127.0.0.1", 0))
            me = list(out.getsockname())

            async def feed():
                for d in word:
                    n0 = len(got)
                    if len(d["raw"]) > 0:
                        out.sendto(bytes(d["raw"]), ("127.0.0.1", port))
                    # real sockets and a real scheduler: wait long for an expected delivery (up to 2 s), briefly otherwise
                    for _ in range(1000 if d["kind"] == "valid" else 15):
                        await asyncio.sleep(0.002)
                        if len(got) > n0:
                            break
                    if len(d["raw"]) == 0:
                        continue
                    events.append(dict(e="dgram", kind=d["kind"], raw=list(d["raw"]), src=me, raised=""))
                    for t in got[n0:]:
                        events.append(dict(e="callback", **abs_trap(t)))
            loop.run_until_complete(feed())
            out.close()
    finally:
        RAW.listen = real_listen
        for t in asyncio.all_tasks(loop):
            t.cancel()
        loop.run_until_complete(loop.shutdown_asyncgens())
        loop.close()
    events.append(dict(e="end"))
    return dict(scenario=dict(community=list(community.encode()), mode=mode, word=[d["kind"] for d in word]), events=events)
