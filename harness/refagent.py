"""Reference SNMP agent (executable counterpart of spec/Agent.tla and spec/UsmAgent.tla).

v1 / v2c / v3 (USM, RFC 3414).  Independent of puresnmp and x690: BER through
refber, HMAC / key localisation written from RFC 3414 / RFC 2104 with hashlib.
It is plugged behind ``Client(sender=...)``.
"""
from __future__ import annotations
import hashlib
from refber import *
import refber

USM_STATS = {
    "unsupportedSecLevels": (1, 3, 6, 1, 6, 3, 15, 1, 1, 1, 0),
    "notInTimeWindows": (1, 3, 6, 1, 6, 3, 15, 1, 1, 2, 0),
    "unknownUserNames": (1, 3, 6, 1, 6, 3, 15, 1, 1, 3, 0),
    "unknownEngineIDs": (1, 3, 6, 1, 6, 3, 15, 1, 1, 4, 0),
    "wrongDigests": (1, 3, 6, 1, 6, 3, 15, 1, 1, 5, 0),
    "decryptionErrors": (1, 3, 6, 1, 6, 3, 15, 1, 1, 6, 0),
}
GET, GETNEXT, RESPONSE, SET, GETBULK, INFORM, TRAP2, REPORT = 0xA0, 0xA1, 0xA2, 0xA3, 0xA5, 0xA6, 0xA7, 0xA8


# ------------------------------------------------------------- RFC 3414 A.2 / RFC 2104
def password_to_ku(hname: str, password: bytes) -> bytes:
    """RFC 3414 A.2.1/A.2.2: digest of 1 048 576 octets formed by repeating the password,
    fed in 64-octet chunks."""
    h = hashlib.new(hname)
    plen = len(password)
    idx = 0
    count = 0
    while count < 1048576:
        buf = bytearray(64)
        for i in range(64):
            buf[i] = password[idx % plen]
            idx += 1
        h.update(bytes(buf))
        count += 64
    return h.digest()


_KU_CACHE = {}


def localised_key(hname: str, password: bytes, engine: bytes) -> bytes:
    k = (hname, password)
    if k not in _KU_CACHE:
        _KU_CACHE[k] = password_to_ku(hname, password)
    ku = _KU_CACHE[k]
    return hashlib.new(hname, ku + engine + ku).digest()


def hmac96(hname: str, key: bytes, msg: bytes) -> bytes:
    """RFC 2104 written out (block size 64 for MD5 and SHA-1)."""
    if len(key) > 64:
        key = hashlib.new(hname, key).digest()
    key = key.ljust(64, b"\0")
    ipad = bytes(b ^ 0x36 for b in key)
    opad = bytes(b ^ 0x5C for b in key)
    inner = hashlib.new(hname, ipad + msg).digest()
    return hashlib.new(hname, opad + inner).digest()[:12]


HNAME = {"md5": "md5", "sha1": "sha1"}


def stream(key: bytes, salt: bytes, data: bytes) -> bytes:
    """own copy of the harness stream transform (same definition as the verifstream plug-in)"""
    out = bytearray()
    c = 0
    while len(out) < len(data):
        out.extend(hashlib.sha256(key + b"|" + salt + b"|" + c.to_bytes(4, "big")).digest())
        c += 1
    return bytes(a ^ b for a, b in zip(data, out))


class User:
    def __init__(self, name: bytes, auth=None, priv=None):
        """auth = (hash name, password) | None ; priv = (method, password) | None"""
        self.name, self.auth, self.priv = name, auth, priv

    def kauth(self, engine):
        return localised_key(HNAME[self.auth[0]], self.auth[1], engine)

    def kpriv(self, engine):
        return localised_key(HNAME[self.auth[0]], self.priv[1], engine)


class Mib:
    """ordered set of instances: oid tuple -> encoded value (tag+len+content bytes)"""

    def __init__(self, items=()):
        self.d = dict(items)
        self._keys = sorted(self.d)

    def set(self, oid, val):
        self.d[oid] = val
        self._keys = sorted(self.d)

    def get(self, oid):
        return self.d.get(oid)

    def has_object_prefix(self, oid):
        return any(k[:len(oid)] == oid or oid[:len(k) - 1] == k[:-1] for k in self._keys)

    def next(self, oid):
        import bisect
        i = bisect.bisect_right(self._keys, tuple(oid))
        return self._keys[i] if i < len(self._keys) else None


class Agent:
    """Policy knobs (all optional, all driven by the scenario):
       cut(k, n, full_len) -> number of repeater bindings to keep in the k-th GETBULK answer
       faulty: dict oid -> oid | "eomv" replacing the successor function (stateless faulty agent)
       script(req) -> None | dict(es=, ei=, vbs=[, iddelta=]) scripted reply
       perturb(req, fields) -> fields   last-minute change of reqid / community / version / vbs
    """

    def __init__(self, mib=None, version=1, community=b"public", engine=b"\x80\x00\x1f\x88\x80verifeng",
                 users=(), boots=1, clock=None, events=None):
        self.mib = mib if isinstance(mib, Mib) else Mib(mib or ())
        self.version, self.community = version, community
        self.engine, self.users = engine, {u.name: u for u in users}
        self.boots = boots
        self.clock = clock or (lambda: 1000)
        self.t0 = 0            # engine time = clock() - t0
        self.cut = None
        self.faulty = None
        self.script = None
        self.perturb = None
        self.forms = None
        self.budget = None
        self.nreq = 0
        self.ndisco = 0
        self.nbulk = 0
        self.stats = {k: 0 for k in USM_STATS}
        self.events = events if events is not None else []
        self.log = []
        self.on_request = None
        self.on_reply = None
        self.on_discovery = None
        self.disco_delta = 0
        self.time_override = None
        self.boots_override = None
        self.v3_response_hook = None
        self.msg_max_size = 65507          # msgMaxSize the agent announces: what IT can receive - not a bound on what it sends
        self.partial_first = False         # TRUE: cut() may leave less than one full repetition in a GETBULK response
        self.honour_reportable = False     # TRUE: requests without the reportable flag that would earn a Report are dropped (raise Dropped)
        self.force_report = None           # name of a usmStats counter: the next non-discovery request is answered with that Report
        self.report_ctx_engine = None      # contextEngineID of Reports (default: the engine id; proxies / multi-context agents differ, it may be empty)

    # ---------------- clock
    def engine_time(self):
        if self.time_override is not None:
            return self.time_override
        return int(self.clock() - self.t0)

    def reboot(self):
        self.boots += 1
        self.t0 = self.clock()

    # ---------------- MIB semantics
    def succ(self, oid):
        if self.faulty is not None:
            r = self.faulty.get(tuple(oid), "eomv")
            return None if r == "eomv" else tuple(r)
        return self.mib.next(oid)

    def val(self, oid):
        v = self.mib.get(tuple(oid))
        return v if v is not None else enc_int(1)

    def answer(self, req):
        """-> (error_status, error_index, [(oid, encoded value)])  RFC 3416 §4.2 / RFC 1157 §4.1"""
        pt, vbs = req["ptype"], req["vbs"]
        v1 = req.get("version") == 0
        out = []
        if pt == GET:
            for i, (oid, _, _) in enumerate(vbs):
                v = self.mib.get(oid)
                if v is None:
                    if v1:
                        return 2, i + 1, [(o, NULL) for o, _, _ in vbs]
                    v = NOSUCHINST if self.mib.has_object_prefix(oid) else NOSUCHOBJ
                out.append((oid, v))
            return 0, 0, out
        if pt == GETNEXT:
            for i, (oid, _, _) in enumerate(vbs):
                s = self.succ(oid)
                if s is None:
                    if v1:
                        return 2, i + 1, [(o, NULL) for o, _, _ in vbs]
                    out.append((oid, EOMV))
                else:
                    out.append((s, self.val(s)))
            return 0, 0, out
        if pt == SET:
            for oid, t, c in vbs:
                enc = tlv(t, c)
                self.mib.set(oid, enc)
                out.append((oid, enc))
            return 0, 0, out
        if pt == GETBULK:
            nr = max(0, min(req["f1"], len(vbs)))
            mr = max(0, req["f2"])
            for oid, _, _ in vbs[:nr]:
                s = self.succ(oid)
                out.append((s, self.val(s)) if s is not None else (oid, EOMV))
            cur = [o for o, _, _ in vbs[nr:]]
            rep = []
            for _ in range(min(mr, 120)):       # an agent may return fewer repetitions than asked for (RFC 3416 4.2.3)
                nxt = []
                for oid in cur:
                    s = self.succ(oid)
                    if s is not None:
                        rep.append((s, self.val(s)))
                        nxt.append(s)
                    else:
                        rep.append((oid, EOMV))
                        nxt.append(oid)
                cur = nxt
            self.nbulk += 1
            if self.cut is not None and cur:
                n = len(cur)
                keep = self.cut(self.nbulk, n, len(rep))
                # at least one full repetition - unless the scenario asks for a response cut inside its first repetition
                # (RFC 3416 4.2.3 lets the agent drop any number of bindings from the end; at least one must remain)
                floor = 1 if self.partial_first else min(n, len(rep))
                keep = max(floor, min(keep, len(rep)))
                rep = rep[:keep]
            return 0, 0, out + rep
        return 5, 0, []

    # ---------------- message handling
    async def __call__(self, endpoint, packet, timeout=None, retries=None, **kw):
        return self.handle(bytes(packet))

    def handle(self, packet: bytes) -> bytes:
        self.nreq += 1
        if self.budget is not None and self.nreq > self.budget:
            raise BudgetExceeded(self.nreq)
        # sniff version
        tag, cs, ce, _ = dec_tlv(packet)
        k = kids(packet, cs, ce)
        ver = dec_int(packet[k[0][1]:k[0][2]])
        if ver == 3:
            return self.handle_v3(packet)
        req = parse_community(packet)
        req["raw"] = packet
        self.log.append(req)
        if self.on_request:
            self.on_request(req)
        fields = self.reply_fields(req)
        fields.update(version=req["version"], community=req["community"])
        if self.perturb:
            fields = self.perturb(req, fields)
        if self.on_reply:
            self.on_reply(req, fields)
        pdu = build_pdu(fields["ptype"], fields["reqid"], fields["es"], fields["ei"], fields["vbs"], self.forms)
        raw = build_community(fields["version"], fields["community"], pdu, self.forms)
        req["reply"] = fields
        req["reply_raw"] = raw
        return raw

    def reply_fields(self, req):
        s = self.script(req) if self.script else None
        if s is not None:
            es, ei, vbs = s["es"], s["ei"], s["vbs"]
        else:
            es, ei, vbs = self.answer(req)
        return dict(ptype=RESPONSE, reqid=req["reqid"] + (s or {}).get("iddelta", 0), es=es, ei=ei, vbs=list(vbs))

    # ---------------- USM (RFC 3414 §3.2)
    def _decrypt(self, sp, cipher):
        u = self.users.get(sp["user"])
        if u is None or u.priv is None:
            raise BerError("cannot decrypt")
        return stream(u.kpriv(self.engine), sp["priv"], cipher)

    def handle_v3(self, packet: bytes) -> bytes:
        req = parse_v3(packet)          # header + secparams (+ plaintext pdu)
        req["raw"] = packet
        self.log.append(req)
        flags = req["flags"]
        req["verdict"] = "ok"
        # 3.2(3) engine id
        if req["engine"] != self.engine:
            self.stats["unknownEngineIDs"] += 1
            req["verdict"] = "unknownEngineIDs"
            if flags & 2:       # cannot even read the PDU
                return self.report(req, "unknownEngineIDs", None, req["msgid"], 0)
            self.ndisco += 1
            if self.on_discovery:
                self.on_discovery(req)
            return self.report(req, "unknownEngineIDs", None, req["msgid"] + self.disco_delta, req.get("reqid", 0))
        if self.force_report:
            # scripted: answer this request with the given usmStats Report (once)
            counter, self.force_report = self.force_report, None
            self.stats[counter] += 1
            req["verdict"] = "forced:" + counter
            return self.report(req, counter, None, req["msgid"], req.get("reqid", 0))
        u = self.users.get(req["user"])
        if u is None:
            self.stats["unknownUserNames"] += 1
            req["verdict"] = "unknownUserNames"
            return self.report(req, "unknownUserNames", None, req["msgid"], req.get("reqid", 0))
        want_auth, want_priv = bool(flags & 1), bool(flags & 2)
        if (want_auth and u.auth is None) or (want_priv and (u.priv is None or not want_auth)) \
                or (u.auth is not None and not want_auth) or (u.priv is not None and not want_priv):
            # the reference agent's users are configured for exactly one security level (VACM: minimum = maximum)
            self.stats["unsupportedSecLevels"] += 1
            req["verdict"] = "unsupportedSecLevels"
            return self.report(req, "unsupportedSecLevels", None, req["msgid"], req.get("reqid", 0))
        if want_auth:
            ap = req["auth"]
            z = packet[:req["auth_off"]] + b"\0" * len(ap) + packet[req["auth_off"] + len(ap):]
            ok = len(ap) == 12 and hmac96(HNAME[u.auth[0]], u.kauth(self.engine), z) == ap
            req["digest_ok"] = ok
            if not ok:
                self.stats["wrongDigests"] += 1
                req["verdict"] = "wrongDigests"
                return self.report(req, "wrongDigests", None, req["msgid"], req.get("reqid", 0))
            now = self.engine_time()
            req["agent_boots"], req["agent_time"] = self.boots, now
            if req["boots"] != self.boots or abs(req["time"] - now) > 150:
                self.stats["notInTimeWindows"] += 1
                req["verdict"] = "notInTimeWindows"
                return self.report(req, "notInTimeWindows", u, req["msgid"], req.get("reqid", 0))
        if want_priv:
            try:
                req.update(parse_v3(packet, decrypt=self._decrypt))
            except Exception:
                self.stats["decryptionErrors"] += 1
                req["verdict"] = "decryptionErrors"
                return self.report(req, "decryptionErrors", u, req["msgid"], 0)
        if self.on_request:
            self.on_request(req)
        fields = self.reply_fields(req)
        if self.perturb:
            fields = self.perturb(req, fields)
        req["reply"] = fields
        if self.on_reply:
            self.on_reply(req, fields)
        pdu = build_pdu(fields["ptype"], fields["reqid"], fields["es"], fields["ei"], fields["vbs"], self.forms)
        raw = self.secure(u, req["msgid"] if "msgid" not in fields else fields["msgid"], flags & 3,
                          build_scoped(req["ctxengine"], req["ctxname"], pdu, self.forms))
        if self.v3_response_hook:
            raw = self.v3_response_hook(self, req, u, raw)
        req["reply_raw"] = raw
        return raw

    def secure(self, u, msgid, flags, scoped: bytes, boots=None, time=None, user=None, engine=None) -> bytes:
        """build an outgoing v3 message at security level `flags` for user u"""
        engine = self.engine if engine is None else engine
        boots = (self.boots if self.boots_override is None else self.boots_override) if boots is None else boots
        time = self.engine_time() if time is None else time
        uname = (u.name if u else b"") if user is None else user
        salt = b""
        payload = scoped
        if flags & 2:
            self._salt = getattr(self, "_salt", 0) + 1
            salt = b"A" + self._salt.to_bytes(7, "big")
            if u.priv[0] == "verifblock":          # block transform: zero padding to a multiple of 8 octets
                scoped = scoped + b"\0" * (-len(scoped) % 8)
            payload = enc_str(stream(u.kpriv(engine), salt, scoped))
        if flags & 1:
            m0 = build_v3(msgid, self.msg_max_size, flags, engine, boots, time, uname, b"\0" * 12, salt, payload, self.forms)
            mac = hmac96(HNAME[u.auth[0]], u.kauth(engine), m0)
            m1 = build_v3(msgid, self.msg_max_size, flags, engine, boots, time, uname, mac, salt, payload, self.forms)
            assert len(m0) == len(m1)
            return m1
        return build_v3(msgid, self.msg_max_size, flags, engine, boots, time, uname, b"", salt, payload, self.forms)

    def report(self, req, counter, u, msgid, reqid) -> bytes:
        if self.honour_reportable and not (req.get("flags", 4) & 4):
            # RFC 3412 7.1 step 3 / RFC 3414 3.2: no Report is generated for a message whose reportableFlag is clear - it is dropped
            req["dropped"] = True
            raise Dropped(counter)
        vbs = [(USM_STATS[counter], enc_uint(self.stats[counter], 0x41))]
        pdu = build_pdu(REPORT, reqid, 0, 0, vbs)
        scoped = build_scoped(self.engine if self.report_ctx_engine is None else self.report_ctx_engine, b"", pdu)
        # RFC 3414 §3.2: notInTimeWindow reports are authenticated (authNoPriv); the others noAuthNoPriv
        flags = 1 if (u is not None and counter == "notInTimeWindows") else 0
        raw = self.secure(u, msgid, flags, scoped, user=(u.name if u is not None and flags else req.get("user", b"")))
        req["reply"] = dict(ptype=REPORT, reqid=reqid, es=0, ei=0, vbs=vbs, report=counter)
        req["reply_raw"] = raw
        return raw


class BudgetExceeded(Exception):
    pass


class Dropped(Exception):
    """the agent discards the datagram without an answer (the sender seam turns this into puresnmp's Timeout)"""
