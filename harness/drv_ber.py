"""Driver for C05 (every emitted datagram = the intended request) and C06 (every response value reaches the
caller; re-encoding): records datagrams for TLC to decode with spec/Ber.tla."""
from __future__ import annotations
import asyncio
from common import *
from berforms import *
from x690.types import ObjectIdentifier as OID

PTYPE = {"get": GET, "multiget": GET, "getnext": GETNEXT, "multigetnext": GETNEXT, "set": SET, "multiset": SET, "bulkget": GETBULK,
         "walk": GETNEXT, "bulkwalk": GETBULK, "bulkwalk2": GETBULK}


async def emit_case(case):
    """case: proto, op, oids [arcs], vals [(kind, value)], reqid, community, ctxname, ctxengine, nr, mr -> list of emit events"""
    import puresnmp.util as U
    from puresnmp import Client, V1, V2C, V3, Auth, Priv
    proto = case["proto"]
    community = case.get("community", "public")
    mib = {}
    if case["op"] == "bulkwalk2":
        # two bulk walks with different max-repetitions in progress on ONE client: each walk has a subtree of its own
        for r, n in zip(case["oids"], case["sizes"]):
            mib.update({tuple(r) + (i,): enc_int(i) for i in range(1, n + 1)})
        mib[tuple(max(case["oids"]))[:-1] + (4000, 1)] = enc_int(0)      # something after the last subtree: every walk ends on a foreign name
    ag = make_agent(mib, proto, community=community.encode("ascii"), engine=bytes(case.get("engine", b"\x80\x00\x1f\x88\x80verifeng")))
    sent = []

    async def sender(endpoint, packet, timeout=None, retries=None):
        sent.append(bytes(packet))
        return ag.handle(bytes(packet))
    if proto == "v1":
        creds = V1(community)
    elif proto == "v2c":
        creds = V2C(community)
    else:
        creds = creds_for(proto)
    if case.get("initial"):
        # the client is built for another credential family first and then switched (C05: the datagram must follow the credentials in force)
        ini = {"v1": V1("first"), "v2c": V2C("first")}.get(case["initial"]) or creds_for(case["initial"])
        c = Client("192.0.2.1", ini, sender=sender, context_name=bytes(case.get("ctxname", b"")), engine_id=bytes(case.get("ctxengine", b"")))
        if case.get("warm"):
            try:
                await c.get(OID("1.3.6.1.2.1.1.1.0"))
            except Exception:  # noqa
                pass
            sent.clear()
        if case.get("via") != "reconfigure":
            c.configure(credentials=creds)
    else:
        c = Client("192.0.2.1", creds, sender=sender, context_name=bytes(case.get("ctxname", b"")), engine_id=bytes(case.get("ctxengine", b"")))
    import puresnmp.api.raw, puresnmp_plugins.security.usm  # noqa  (so that patched_clock sees every holder of get_request_id)
    _clk = patched_clock(None, request_id=lambda: case["reqid"])
    _clk.__enter__()
    op = case["op"]
    oids = [OID(".".join(map(str, o))) for o in case["oids"]]
    vals = case.get("vals", [])
    err = None
    if case.get("py"):
        # the same operations through the pythonic wrapper, OIDs given as strings (optionally with a leading dot)
        from puresnmp import PyWrapper
        c = PyWrapper(c)
        oids = [("." if case.get("dot") else "") + ".".join(map(str, o)) for o in case["oids"]]
    import contextlib
    block = c.reconfigure(credentials=creds) if case.get("via") == "reconfigure" else contextlib.nullcontext()
    try:
      with block, debug_logging(bool(case.get("debuglog"))):
          if op == "get":
              await c.get(oids[0])
          elif op == "multiget":
              await c.multiget(oids)
          elif op == "getnext":
              await c.getnext(oids[0])
          elif op == "multigetnext":
              await c.multigetnext(oids)
          elif op == "set":
              await c.set(oids[0], mk_x690_raw(*vals[0]))
          elif op == "multiset":
              await c.multiset({o: mk_x690_raw(*v) for o, v in zip(oids, vals)})
          elif op == "bulkget":
              await c.bulkget(oids[:case["nr"]], oids[case["nr"]:], case["mr"])
          elif op == "walk":
              async for _ in c.multiwalk(oids):
                  break
          elif op == "bulkwalk":
              async for _ in c.bulkwalk(oids, bulk_size=case["mr"]):
                  break
          elif op == "bulkwalk2":
              # the walks are consumed alternately (every walk needs further requests after the other ones have started)
              its = [c.bulkwalk([o], bulk_size=m).__aiter__() for o, m in zip(oids, case["mrs"])]
              live = list(its)
              while live:
                  for it in list(live):
                      try:
                          await it.__anext__()
                      except StopAsyncIteration:
                          live.remove(it)
    except Exception as e:  # noqa   the reply is irrelevant here; only what was emitted counts
        err = exc_name(e)
    finally:
        _clk.__exit__(None, None, None)
    events = []
    reqid = canon_int(case["reqid"])
    is_set = op in ("set", "multiset")
    base = dict(ptype=PTYPE[op], reqid=reqid,
                f1=canon_int(case["nr"] if PTYPE[op] == GETBULK and op == "bulkget" else 0),
                f2=canon_int(case["mr"] if PTYPE[op] == GETBULK else 0),
                oids=[oid_digits(o) for o in (sorted(case["oids"]) if op in ("walk", "bulkwalk") else case["oids"])],
                vals=[val_form(*v) for v in vals] if is_set else [[5, []] for _ in case["oids"]])
    nth = {}
    for k, raw in enumerate(sent):
        plain = []
        if op == "bulkwalk2":
            # the request belongs to the walk whose subtree it names; its j-th request continues after the (j * max-repetitions)-th instance
            try:
                rq = parse_community(raw) if proto in ("v1", "v2c") else parse_v3(raw, decrypt=ag._decrypt)
                first = tuple(rq["vbs"][0][0]) if rq.get("vbs") else None
            except Exception:  # noqa
                first = None
            w = [i for i, r in enumerate(case["oids"]) if first is not None and first[:len(r)] == tuple(r)]
            if w:
                w = w[0]
                j = nth[w] = nth.get(w, -1) + 1
                m = case["mrs"][w]
                start = tuple(case["oids"][w]) + ((j * m,) if j else ())
                base = dict(base, f2=canon_int(m), oids=[oid_digits(start)], vals=[[5, []]])
            else:
                base = dict(base, f2=canon_int(0), oids=[], vals=[])      # a request that belongs to no walk (or the discovery probe, handled below)
        if proto in ("v1", "v2c"):
            intended = dict(base, form="community", version=canon_int(0 if proto == "v1" else 1), community=list(community.encode("ascii")))
        else:
            u = USERS[proto]
            fl = (1 if u.auth else 0) | (2 if u.priv else 0) | 4
            try:
                is_probe = parse_v3(raw)["engine"] == b"" and k == 0
            except Exception:  # noqa
                is_probe = k == 0
            if is_probe:      # RFC 3414 section 4 discovery probe
                intended = dict(form="v3", ptype=GET, reqid=reqid, f1=[0], f2=[0], oids=[], vals=[], msgid=reqid, flags=4, engine=[], boots=[0], time=[0],
                                user=[], authlen=0, ctxengine=[], ctxname=[])
            else:
                intended = dict(base, form="v3", msgid=reqid, flags=fl, engine=list(ag.engine), boots=canon_int(ag.boots), time=canon_int(ag.engine_time()),
                                user=list(u.name), authlen=12 if u.auth else 0,
                                ctxengine=list(case.get("ctxengine") or ag.engine), ctxname=list(case.get("ctxname", b"")))
                if u.priv:
                    try:
                        plain = list(parse_v3(raw, decrypt=ag._decrypt)["spdu_plain"])
                    except Exception:  # noqa
                        plain = []
        events.append(dict(e="emit", raw=list(raw), plain=plain, intended=intended))
    return events, err


# ------------------------------------------------------------------ C06
def build_response(proto, ag, req, vbs, forms, es=0, ei=0):
    """vbs: [(arcs, encoded value)]; forms: dict of length forms (refber)"""
    pdu = build_pdu(RESPONSE, req["reqid"], es, ei, vbs, forms)
    if proto in ("v1", "v2c"):
        return build_community(req["version"], req["community"], pdu, forms), b""
    old = ag.forms
    ag.forms = forms
    try:
        u = ag.users.get(req["user"])
        scoped = build_scoped(req["ctxengine"], req["ctxname"], pdu, forms)
        raw = ag.secure(u, req["msgid"], req["flags"] & 3, scoped)
    finally:
        ag.forms = old
    return raw, scoped


async def deliver_case(case):
    """case: proto, values [(kind, value, value_form)], forms -> one deliver event (+ reencode events)"""
    import puresnmp.util as U
    proto = case["proto"]
    ag = make_agent({}, proto)
    if case.get("msgmax"):
        ag.msg_max_size = case["msgmax"]
    n = len(case["values"])
    arcs = [tuple(case.get("oid_base", (1, 3, 6, 1, 4, 1, 99999, 7))) + (i + 1,) for i in range(n)]
    if case.get("oids"):
        arcs = [tuple(o) for o in case["oids"]]
    out = {}

    async def sender(endpoint, packet, timeout=None, retries=None):
        packet = bytes(packet)
        tag, cs, ce, _ = dec_tlv(packet)
        ver = dec_int(packet[kids(packet, cs, ce)[0][1]:kids(packet, cs, ce)[0][2]])
        if ver == 3:
            req = parse_v3(packet, decrypt=ag._decrypt)
            if req["engine"] != ag.engine:
                return ag.handle(packet)
        else:
            req = parse_community(packet)
        vbs = [(a, enc_value(k, v, form=vf)) for a, (k, v, vf) in zip(arcs, case["values"])]
        raw, scoped = build_response(proto, ag, req, vbs, case.get("forms") or {}, es=0, ei=case.get("ei", 0))
        out["raw"], out["plain"] = raw, scoped if (proto in USERS and USERS[proto].priv) else b""
        return raw
    c = make_client(ag, proto, sender=sender)
    import puresnmp.api.raw, puresnmp_plugins.security.usm  # noqa
    _clk = patched_clock(None, request_id=lambda: case.get("reqid", 1000))
    _clk.__enter__()
    try:
        try:
            api = case.get("api", "multiget")
            O = [OID(".".join(map(str, a))) for a in arcs]
            if api == "get":
                r = [await c.get(O[0])]
            elif api == "getnext":
                r = [(await c.getnext(OID(".".join(map(str, arcs[0][:-1]))))).value]
            elif api == "walk":
                r = []
                async for vb in c.walk(OID(".".join(map(str, arcs[0][:-1])))):
                    r.append(vb.value)
                    break
            elif api in ("py.get", "py.multiget"):
                # the same values as they reach a caller of the pythonic API (the documented conversion of each type)
                from puresnmp import PyWrapper
                so = [".".join(map(str, a)) for a in arcs]
                pv = [await PyWrapper(c).get(so[0])] if api == "py.get" else await PyWrapper(c).multiget(so)
                r = None
                got = dict(kind="result", vals=[form_of_py(k, v) for (k, _, _), v in zip(case["values"], pv)])
            else:
                r = await c.multiget(O)
            if r is not None:
                got = dict(kind="result", vals=[form_of_x690(v) for v in r])
        except Exception as e:  # noqa
            got = dict(kind="exc", cls=exc_name(e), vals=[])
    finally:
        _clk.__exit__(None, None, None)
    ev = [dict(e="deliver", raw=list(out.get("raw", b"")), plain=list(out.get("plain", b"")),
               intended=[val_form(k, v) for k, v, _ in case["values"]], got=got)]
    return ev, out


def reencode_events(raw: bytes, plain: bytes, proto: str):
    """decode with the library's entry points, re-encode, and let TLC compare the contents"""
    import x690
    from puresnmp.adt import Message, ScopedPDU
    from puresnmp_plugins.security.usm import USMSecurityParameters
    evs = []

    def add(what, inb, fn):
        try:
            outb = fn(bytes(inb))
        except Exception as e:  # noqa
            outb = b""
        evs.append(dict(e="reencode", what=what, inb=list(inb), outb=list(outb), plain=list(plain) if what == "message" else []))
    if proto in ("v1", "v2c"):
        r = parse_community(raw)
        _, cs, ce, _ = dec_tlv(raw)
        k = kids(raw, cs, ce)
        pdu = raw[k[2][3]:k[2][2]]
    else:
        add("message", raw, lambda b: bytes(Message.decode(b)))
        _, cs, ce, _ = dec_tlv(raw)
        m = kids(raw, cs, ce)
        add("usm", raw[m[2][1]:m[2][2]], lambda b: bytes(USMSecurityParameters.decode(b)))
        sp = plain if plain else raw[m[3][3]:m[3][2]]
        add("scoped", sp, lambda b: bytes(ScopedPDU.decode(b)))
        _, s2, e2, _ = dec_tlv(sp)
        k2 = kids(sp, s2, e2)
        pdu = sp[k2[2][3]:k2[2][2]]

    def repdu(b):
        obj, _ = x690.decode(b)
        return bytes(type(obj)(obj.value))       # force a real re-encoding of the decoded content
    add("pdu", pdu, repdu)
    return evs
