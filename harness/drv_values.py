"""Driver for C17: observations of puresnmp.types (constructors, decoders, conversions, round trips)."""
from __future__ import annotations
from datetime import timedelta
from ipaddress import IPv4Address
from common import *
from berforms import canon_int

TPD = 8640000


def mag(n):
    n = abs(n)
    return list(n.to_bytes(max(1, (n.bit_length() + 7) // 8), "big"))


def val_or_repr(v):
    return canon_int(v) if isinstance(v, int) else [ord(c) for c in repr(v)[:24]]


def obs_counter(cls_name, n):
    import puresnmp.types as T
    cls = getattr(T, cls_name)
    try:
        out = val_or_repr(cls(n).value)
    except Exception as e:  # noqa
        out = [ord(c) for c in exc_name(e)]
    return dict(k="counter", cls=cls_name, neg=n < 0, mag=mag(n), octets=4 if cls_name == "Counter" else 8, out=out)


def obs_udecode(cls_name, content: bytes):
    import x690
    tag = {"Counter": 0x41, "Gauge": 0x42, "TimeTicks": 0x43, "Counter64": 0x46}[cls_name]
    try:
        obj, _ = x690.decode(tlv(tag, content))
        v = obj.value
        return dict(k="udecode", cls=cls_name, content=list(content), outneg=(not isinstance(v, int)) or v < 0, out=val_or_repr(v) if isinstance(v, int) and v >= 0 else canon_int(0))
    except Exception as e:  # noqa
        return dict(k="udecode", cls=cls_name, content=list(content), outneg=True, out=[ord(c) for c in exc_name(e)])


def _td(x):
    """timedelta -> [days, seconds, microseconds]; anything else (None, an exception) -> a value no reference definition equals"""
    return [x.days, x.seconds, x.microseconds] if isinstance(x, timedelta) else [-1, -1, -1]


def _tk(fn):
    try:
        v = fn()
    except Exception:  # noqa   total: a raising conversion is an observation the monitor rejects, not a harness failure
        return [-1, -1]
    return list(divmod(v, TPD)) if isinstance(v, int) and not isinstance(v, bool) else [-1, -1]


def _try(fn):
    try:
        return fn()
    except Exception:  # noqa
        return None


def obs_ticks(n):
    from puresnmp.types import TimeTicks
    out = []
    d, r = divmod(n, TPD)
    out.append(dict(k="ticks2delta", d=d, r=r, out=_td(_try(lambda: TimeTicks(n).pythonize()))))
    ref = timedelta(days=d, seconds=r // 100, microseconds=(r % 100) * 10000)     # constructed independently of the library
    out.append(dict(k="delta2ticks", days=ref.days, secs=ref.seconds, micros=ref.microseconds, out=_tk(lambda: TimeTicks(ref).value)))
    out.append(dict(k="ticksround", d=d, r=r, out=_tk(lambda: TimeTicks(TimeTicks(n).pythonize()).value)))
    return out


def obs_delta(days, secs, micros):
    from puresnmp.types import TimeTicks
    return dict(k="delta2ticks", days=days, secs=secs, micros=micros, out=_tk(lambda: TimeTicks(timedelta(days=days, seconds=secs, microseconds=micros)).value))


def obs_ip(octets: bytes):
    import x690
    from puresnmp.types import IpAddress
    a = IPv4Address(bytes(octets))
    try:
        enc = bytes(IpAddress(a))
        py = x690.decode(enc)[0].pythonize()
        return dict(k="ip", octets=list(octets), packed=list(enc[2:]), back=list(py.packed) if hasattr(py, "packed") else [],
                    text=str(py), dotted=".".join(str(b) for b in octets))
    except Exception as e:  # noqa
        return dict(k="ip", octets=list(octets), packed=[], back=[], text=exc_name(e), dotted=".".join(str(b) for b in octets))


def obs_roundtrip(cls_name, v):
    import x690
    import puresnmp.types as T
    from x690.types import Integer
    cls = Integer if cls_name == "Integer" else getattr(T, cls_name)
    try:
        enc = bytes(cls(v))
    except Exception as e:  # noqa
        return dict(k="roundtrip", kind=cls_name, val=canon_int(v), enc=[], back=[ord(c) for c in exc_name(e)])
    try:
        back, _ = x690.decode(enc)
        bv = val_or_repr(back.value) if type(back).__name__ == cls_name else [ord(c) for c in type(back).__name__]
    except Exception as e:  # noqa
        bv = [ord(c) for c in exc_name(e)]
    return dict(k="roundtrip", kind=cls_name, val=canon_int(v), enc=list(enc), back=bv)
