"""Driver for C17: observations of puresnmp.types (constructors, decoders, conversions, round trips)."""
from __future__ import annotations
from datetime import timedelta
from ipaddress import IPv4Address
from common import *
from berforms import canon_int

TPD = 8640000


def mag(n):
    n = abs(n)
    return list(n.to_bytes(max(1, (n.bit_length() + 7) // 8), "big"))


def val_or_repr(v):
    return canon_int(v) if isinstance(v, int) else [ord(c) for c in repr(v)[:24]]


def obs_counter(cls_name, n):
    import puresnmp.types as T
    cls = getattr(T, cls_name)
    try:
        out = val_or_repr(cls(n).value)
    except Exception as e:  # noqa
        out = [ord(c) for c in exc_name(e)]
    return dict(k="counter", cls=cls_name, neg=n < 0, mag=mag(n), octets=4 if cls_name == "Counter" else 8, out=out)


def obs_udecode(cls_name, content: bytes):
    import x690
    tag = {"Counter": 0x41, "Gauge": 0x42, "TimeTicks": 0x43, "Counter64": 0x46}[cls_name]
    try:
        obj, _ = x690.decode(tlv(tag, content))
        v = obj.value
        return dict(k="udecode", cls=cls_name, content=list(content), outneg=(not isinstance(v, int)) or v < 0, out=val_or_repr(v) if isinstance(v, int) and v >= 0 else canon_int(0))
    except Exception as e:  # noqa
        return dict(k="udecode", cls=cls_name, content=list(content), outneg=True, out=[ord(c) for c in exc_name(e)])


def obs_ticks(n):
    from puresnmp.types import TimeTicks
    out = []
    d, r = divmod(n, TPD)
    td = TimeTicks(n).pythonize()
    out.append(dict(k="ticks2delta", d=d, r=r, out=[td.days, td.seconds, td.microseconds]))
    ref = timedelta(days=d, seconds=r // 100, microseconds=(r % 100) * 10000)     # constructed independently of the library
    back = TimeTicks(ref).value
    out.append(dict(k="delta2ticks", days=ref.days, secs=ref.seconds, micros=ref.microseconds, out=list(divmod(back, TPD)) if isinstance(back, int) else [-1, -1]))
    rt = TimeTicks(TimeTicks(n).pythonize()).value
    out.append(dict(k="ticksround", d=d, r=r, out=list(divmod(rt, TPD)) if isinstance(rt, int) else [-1, -1]))
    return out


def obs_delta(days, secs, micros):
    from puresnmp.types import TimeTicks
    v = TimeTicks(timedelta(days=days, seconds=secs, microseconds=micros)).value
    return dict(k="delta2ticks", days=days, secs=secs, micros=micros, out=list(divmod(v, TPD)) if isinstance(v, int) else [-1, -1])


def obs_ip(octets: bytes):
    import x690
    from puresnmp.types import IpAddress
    a = IPv4Address(bytes(octets))
    obj = IpAddress(a)
    enc = bytes(obj)
    back, _ = x690.decode(enc)
    return dict(k="ip", octets=list(octets), packed=list(enc[2:]), back=list(back.pythonize().packed) if hasattr(back.pythonize(), "packed") else [],
                text=str(back.pythonize()), dotted=".".join(str(b) for b in octets))


def obs_roundtrip(cls_name, v):
    import x690
    import puresnmp.types as T
    from x690.types import Integer
    cls = Integer if cls_name == "Integer" else getattr(T, cls_name)
    obj = cls(v)
    enc = bytes(obj)
    try:
        back, _ = x690.decode(enc)
        bv = val_or_repr(back.value) if type(back).__name__ == cls_name else [ord(c) for c in type(back).__name__]
    except Exception as e:  # noqa
        bv = [ord(c) for c in exc_name(e)]
    return dict(k="roundtrip", kind=cls_name, val=canon_int(v), enc=list(enc), back=bv)
