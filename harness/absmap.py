"""The abstraction map between Python/x690 objects and the JSON/TLA+ values of the traces
(DESIGN.md section 4).  A value is [type tag, token]; the token is a small integer chosen injectively by
the harness so that a mis-attributed value is visible; markers and Null carry token 0."""
from __future__ import annotations
from refber import *

VALUE_TYPES = ["Integer", "OctetString", "ObjectIdentifier", "IpAddress", "Counter", "Gauge", "TimeTicks", "Opaque", "Counter64"]
MARKERS = {"NoSuchObject": NOSUCHOBJ, "NoSuchInstance": NOSUCHINST, "EndOfMibView": EOMV, "Null": NULL}


def enc_abs(v) -> bytes:
    """[tag, tok] -> encoded value bytes (through refber, independent of x690)"""
    tag, tok = v
    if tag in MARKERS:
        return MARKERS[tag]
    if tag == "Integer":
        return enc_int(tok)
    if tag == "OctetString":
        return enc_str(b"s%d" % tok if tok != -1 else b"")          # token -1: the empty string
    if tag == "Opaque":
        return enc_str(b"o%d" % tok if tok != -1 else b"", 0x44)
    if tag == "ObjectIdentifier":
        return enc_oid((1, 3, 6, 1, tok))
    if tag in ("OpaqueRaw", "OctetStringRaw"):     # content given octet by octet (e.g. content that is itself well-formed BER)
        return enc_str(bytes(tok), 0x44 if tag == "OpaqueRaw" else 0x04)
    if tag == "ObjectIdentifierRaw":          # an OID value given by its arcs
        return enc_oid(tuple(tok))
    if tag == "IpAddress":
        return enc_str(bytes([10, 0, (tok >> 8) & 255, tok & 255]), 0x40)
    if tag == "Counter":
        return enc_uint(tok, 0x41)
    if tag == "Gauge":
        return enc_uint(tok, 0x42)
    if tag == "TimeTicks":
        return enc_uint(tok, 0x43)
    if tag == "Counter64":
        return enc_uint((1 << 40) + tok, 0x46)
    raise ValueError(tag)


def abs_enc(tagbyte: int, content: bytes):
    """encoded (tag, content) -> [tag, tok]  (for what the agent received in a SET)"""
    kind, v = dec_value(tagbyte, content)
    return abs_py(kind, v)


def abs_py(kind, v):
    if kind in ("NoSuchObject", "NoSuchInstance", "EndOfMibView", "Null"):
        return [kind, 0]
    if kind == "Integer":
        return [kind, v]
    if kind == "OctetString":
        return [kind, int(v[1:])] if v[:1] == b"s" and v[1:].isdigit() else [kind, -1]
    if kind == "Opaque":
        return [kind, int(v[1:])] if v[:1] == b"o" and v[1:].isdigit() else [kind, -1]
    if kind == "ObjectIdentifier":
        v = tuple(v)
        return [kind, v[4]] if v[:4] == (1, 3, 6, 1) and len(v) == 5 else [kind, -1]
    if kind == "IpAddress":
        v = bytes(v)
        return [kind, (v[2] << 8) | v[3]] if len(v) == 4 and v[:2] == b"\x0a\x00" else [kind, -1]
    if kind in ("Counter", "Gauge", "TimeTicks"):
        return [kind, v]
    if kind == "Counter64":
        return [kind, v - (1 << 40)]
    return [str(kind), -1]


def abs_x690(val):
    """x690 / puresnmp value object -> [tag, tok]"""
    name = type(val).__name__
    if name in ("NoSuchObject", "NoSuchInstance", "EndOfMibView", "Null"):
        return [name, 0]
    v = val.value
    if name == "ObjectIdentifier":
        return abs_py(name, tuple(val.nodes))
    if name == "IpAddress":
        return abs_py(name, v.packed)
    if name in ("Integer", "Counter", "Gauge", "TimeTicks", "Counter64", "OctetString", "Opaque"):
        return abs_py(name, v)
    return [name, -1]


def mk_x690(v):
    """[tag, tok] -> puresnmp/x690 value object (what a caller passes to set())"""
    from x690.types import Integer, OctetString, ObjectIdentifier, Null
    from puresnmp.types import IpAddress, Counter, Gauge, TimeTicks, Opaque, Counter64
    from ipaddress import IPv4Address
    tag, tok = v
    if tag == "Integer":
        return Integer(tok)
    if tag == "OctetString":
        return OctetString(b"s%d" % tok if tok != -1 else b"")
    if tag == "Opaque":
        return Opaque(b"o%d" % tok if tok != -1 else b"")
    if tag == "ObjectIdentifier":
        return ObjectIdentifier("1.3.6.1.%d" % tok)
    if tag == "IpAddress":
        return IpAddress(IPv4Address(bytes([10, 0, (tok >> 8) & 255, tok & 255])))
    if tag == "Counter":
        return Counter(tok)
    if tag == "Gauge":
        return Gauge(tok)
    if tag == "TimeTicks":
        return TimeTicks(tok)
    if tag == "Counter64":
        return Counter64((1 << 40) + tok)
    if tag == "Null":
        return Null()
    raise ValueError(tag)
