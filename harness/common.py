"""Shared pieces of the drivers: environment set-up, abstraction map, client factory."""
from __future__ import annotations
import os, sys, warnings, logging

HERE = os.path.dirname(os.path.abspath(__file__))
VERIF = os.path.dirname(HERE)
if HERE not in sys.path:
    sys.path.insert(0, HERE)
PLUG = os.path.join(HERE, "plugins")
if PLUG not in sys.path:
    sys.path.insert(0, PLUG)
os.environ.setdefault("PURESNMP_VERIF", "1")       # MANIFEST.hooks.guard (no source hook needs it today)
warnings.simplefilter("ignore")
logging.disable(logging.CRITICAL)

from refber import *            # noqa
from refagent import Agent, User, Mib, BudgetExceeded, Dropped, GET, GETNEXT, GETBULK, SET, RESPONSE, REPORT, TRAP2  # noqa

PFX = (1, 3, 6, 1, 4, 1, 99999)
# alternative placements of the abstract universe in the OID tree: objects that the library itself knows by name are ordinary
# MIB objects too ("usm": abstract [1, k, 0] = usmStats counter k, 1.3.6.1.6.3.15.1.1.k.0; abstract root [1] = usmStats)
PREFIXES = {"": PFX, "usm": (1, 3, 6, 1, 6, 3, 15, 1), "sys": (1, 3, 6, 1, 2, 1), "snmpv2": (1, 3, 6, 1, 6, 3)}
_CUR = [PFX]


def cur_pfx():
    return _CUR[0]


class use_prefix:
    """with use_prefix(name): conc()/absoid() place the abstract universe under PREFIXES[name]"""

    def __init__(self, name):
        self.p = PREFIXES[name or ""]

    def __enter__(self):
        self.old, _CUR[0] = _CUR[0], self.p

    def __exit__(self, *a):
        _CUR[0] = self.old


def conc(o):
    """abstract OID (list of small ints) -> concrete arcs"""
    return _CUR[0] + tuple(o)


def absoid(arcs):
    arcs = tuple(arcs)
    p = _CUR[0]
    if arcs[:len(p)] == p:
        return list(arcs[len(p):])
    return ["X"] + list(arcs)          # outside the modelled universe: can never equal an abstract OID


def oidstr(arcs):
    return ".".join(str(a) for a in arcs)


PROTOS = ["v2c", "v1", "v3n", "v3a_md5", "v3a_sha", "v3p_md5", "v3p_sha"]
USERS = {
    "v3n": User(b"nouser"),
    "v3a_md5": User(b"md5user", ("md5", b"authpass-md5")),
    "v3a_sha": User(b"shauser", ("sha1", b"authpass-sha1")),
    "v3p_md5": User(b"privmd5", ("md5", b"authpass-md5"), ("verifstream", b"privpass-md5")),
    "v3p_sha": User(b"privsha", ("sha1", b"authpass-sha1"), ("verifstream", b"privpass-sha")),
}


def creds_for(proto):
    from puresnmp import V1, V2C, V3, Auth, Priv
    if proto == "v1":
        return V1("public")
    if proto == "v2c":
        return V2C("public")
    u = USERS[proto]
    auth = Auth(u.auth[1], u.auth[0]) if u.auth else None
    priv = Priv(u.priv[1], u.priv[0]) if u.priv else None
    return V3(u.name.decode(), auth, priv)


def make_agent(mib, proto="v2c", **kw):
    users = [USERS[proto]] if proto in USERS else []
    return Agent(mib, version={"v1": 0}.get(proto, 1), users=users, **kw)


def make_client(agent, proto="v2c", sender=None, **kw):
    from puresnmp import Client
    return Client("192.0.2.1", creds_for(proto), sender=sender or agent, **kw)


def exc_name(e: BaseException) -> str:
    return type(e).__name__


def is_snmp_error(e: BaseException) -> bool:
    from puresnmp.exc import SnmpError
    return isinstance(e, SnmpError)


def seed() -> int:
    try:
        return int(os.environ.get("VERIF_SEED", "0"))
    except ValueError:
        return 0


# ------------------------------------------------------------------ resource budgets (a hanging client must end the case, not the check)
import contextlib, resource, signal


class CpuBudget(BaseException):
    """raised inside the running code when the CPU-time budget of one case is used up"""


def _on_vtalrm(*a):
    raise CpuBudget()


@contextlib.contextmanager
def cpu_budget(seconds: float, mem_bytes: int = 6 << 30):
    """process CPU time (ITIMER_VIRTUAL, not wall time) and address-space budget for the enclosed code"""
    old = signal.signal(signal.SIGVTALRM, _on_vtalrm)
    soft, hard = resource.getrlimit(resource.RLIMIT_AS)
    try:
        resource.setrlimit(resource.RLIMIT_AS, (mem_bytes if hard == resource.RLIM_INFINITY else min(mem_bytes, hard), hard))
    except (ValueError, OSError):
        pass
    signal.setitimer(signal.ITIMER_VIRTUAL, seconds)
    try:
        yield
    finally:
        signal.setitimer(signal.ITIMER_VIRTUAL, 0)
        signal.signal(signal.SIGVTALRM, old)
        try:
            resource.setrlimit(resource.RLIMIT_AS, (soft, hard))
        except (ValueError, OSError):
            pass


# ------------------------------------------------------------------ the clock seam
_PRELOADED = False


def _preload():
    """import every puresnmp / plug-in module while the real clock is installed, so that a module that binds the clock by name
    (`from time import time`) is seen - and restored - by patched_clock instead of capturing the virtual clock for good"""
    global _PRELOADED
    if _PRELOADED:
        return
    _PRELOADED = True
    import importlib, pkgutil
    for root in ("puresnmp", "puresnmp_plugins"):
        try:
            pkg = importlib.import_module(root)
        except Exception:
            continue
        names = [m.name for m in pkgutil.walk_packages(pkg.__path__, root + ".")]
        if root == "puresnmp_plugins":         # namespace packages: walk_packages does not descend into them
            for sub in ("auth", "mpm", "priv", "security"):
                try:
                    sp = importlib.import_module(root + "." + sub)
                    names += [m.name for m in pkgutil.iter_modules(sp.__path__, root + "." + sub + ".")]
                except Exception:
                    pass
        for n in names:
            try:
                importlib.import_module(n)
            except Exception:
                pass


@contextlib.contextmanager
def patched_clock(now, request_id=None, monotonic=False):
    """Install `now()` as the library's clock for the enclosed code, whichever way the library reads it:
    time.time (module attribute), every module-level alias of time.time in a puresnmp module (imported by name) and - so that the seam survives a refactoring of the
    id source - get_request_id in every puresnmp module that holds it, which then returns int(request_id()) (default: int(now())).
    monotonic=True also replaces time.monotonic (only for runs that use no event-loop timers).
    now=None leaves the clock alone and only fixes the request ids."""
    import sys, time as _t
    _preload()
    rid = request_id or now
    saved = []
    real_time, real_monotonic = _t.time, _t.monotonic

    def put(obj, name, val):
        saved.append((obj, name, getattr(obj, name)))
        setattr(obj, name, val)
    if now is not None:
        put(_t, "time", now)
        if monotonic:
            put(_t, "monotonic", now)
    for name, mod in list(sys.modules.items()):
        if mod is None or not (name.startswith("puresnmp") or name.startswith("puresnmp_plugins")):
            continue
        if hasattr(mod, "get_request_id"):
            put(mod, "get_request_id", lambda: int(rid()))
        if now is not None:
            # `from time import time [as x]` / `from time import monotonic`: any module-level alias of the real clock functions
            for attr, val in list(vars(mod).items()):
                if val is real_time:
                    put(mod, attr, now)
                elif monotonic and val is real_monotonic:
                    put(mod, attr, now)
    try:
        yield
    finally:
        for obj, name, val in reversed(saved):
            setattr(obj, name, val)


# ------------------------------------------------------------------ logging configuration (DEBUG is a configuration applications do use)
class _FormatHandler(logging.Handler):
    def emit(self, record):
        try:
            record.getMessage()          # format the record as a real handler would (lazy arguments are evaluated)
        except Exception:  # noqa
            pass


@contextlib.contextmanager
def debug_logging(on=True):
    """run the enclosed code with the library's loggers at DEBUG (records are formatted and dropped)"""
    if not on:
        yield
        return
    prev = logging.root.manager.disable
    logging.disable(logging.NOTSET)
    h = _FormatHandler()
    loggers = [logging.getLogger(n) for n in ("puresnmp", "puresnmp_plugins", "x690")]
    saved = [(l, l.level, l.propagate) for l in loggers]
    for l in loggers:
        l.setLevel(logging.DEBUG)
        l.addHandler(h)
        l.propagate = False
    try:
        yield
    finally:
        for l, lv, pr in saved:
            l.removeHandler(h)
            l.setLevel(lv)
            l.propagate = pr
        logging.disable(prev)
