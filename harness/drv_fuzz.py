"""Driver for C20: specification-guided mutation sweep.  Seeds are valid v1/v2c/v3 responses, Reports, discovery
replies and traps; the mutation catalogue is derived from the TLV header positions of each seed (every tag octet and
every length octet substituted by the boundary set incl. 0x80 / 0x81 / 0x84 / 0xFF, every single-bit flip, every
truncation, deep nesting, random strings).  Each case is delivered to the real client under a CPU-time
(ITIMER_VIRTUAL) and memory budget, followed by a valid request on the same client."""
from __future__ import annotations
import asyncio, os, random, resource, time
from common import *
from refagent import USM_STATS
from x690.types import ObjectIdentifier as OID

SUBST = [0x00, 0x01, 0x02, 0x05, 0x30, 0x7F, 0x80, 0x81, 0x82, 0x83, 0x84, 0x88, 0xA2, 0xFF]
INST = PFX + (1, 1, 0)


OPAQUE_BER = [bytes.fromhex("3008040341414104" "8041"), bytes.fromhex("30800201"), bytes.fromhex("3003048041"), bytes.fromhex("0480"), bytes.fromhex("a28000"),
              bytes.fromhex("3084ffffffff"), b"\x30\x04" * 30, bytes.fromhex("9f780442f60000")]


def header_positions(data: bytes):
    """offsets of every tag octet and length octet (recursively through constructed values and the USM OCTET STRING)"""
    out = []

    def walk(s, e, depth):
        i = s
        while i < e and depth < 12:
            try:
                tag, cs, ce, nx = dec_tlv(data, i, e)
            except Exception:  # noqa
                return
            out.extend(range(i, cs))
            if tag & 0x20:
                walk(cs, ce, depth + 1)
            elif tag == 0x04 and ce - cs > 2 and data[cs] == 0x30:
                walk(cs, ce, depth + 1)
            i = nx
    walk(0, len(data), 0)
    return sorted(set(out))


def mutations(seed: bytes, rnd, quick, stride=1):
    M = []
    hp = header_positions(seed)
    for p in hp:
        for v in SUBST:
            if seed[p] != v:
                M.append(("subst", p, v))
    nbits = len(seed) * 8
    bits = range(nbits) if not quick else sorted(set(rnd.sample(range(nbits), min(nbits, 120))) | set(p * 8 + 7 for p in hp))
    for b in bits:
        M.append(("bitflip", b, 0))
    for n in (range(len(seed)) if not quick else sorted(set(rnd.sample(range(len(seed)), min(len(seed), 25))) | {0, 1, 2, len(seed) - 1})):
        M.append(("truncate", n, 0))
    for k in (1, 5, 50, 400, 3000):
        M.append(("nest", k, 0))
        M.append(("nest_tail", k, 0))
    for k in range(6 if quick else 60):
        M.append(("random", rnd.randrange(1, 400), rnd.randrange(1 << 30)))
    M.append(("huge", 60000, 0))
    crafted = []                             # never sub-sampled
    for k in (8, 20, 40):
        crafted.append(("overlap", k, 0))    # nested lengths that all reach to the end of the datagram: 2^k routes through the same octets
    for n in (1000, 6400):
        crafted.append(("many", n, 0))
    for v in range(len(OPAQUE_BER)):
        crafted.append(("opaque_ber", v, 0))  # a well-formed message whose Opaque / OCTET STRING value is itself (hostile) BER: values are opaque to the codec
    for p in hp:
        crafted.append(("subst", p, 0x80))    # the indefinite-length octet at every header position, never sub-sampled       # a well-formed message with thousands of tiny bindings (work must stay linear in the size)
    M.append(("insert80", 0, 0))
    for p in hp[:40]:
        M.append(("straddle", p, 0))
    return (M[::stride] if stride > 1 else M) + crafted


def sticky_behaviours(v3: bool):
    """behaviours that last for the whole case: every reply carries another request id; over-long engine time / boots INTEGERs"""
    M = [("reqid_forever", d, 0) for d in (0, 1, 255)]
    if v3:
        for n in (5, 8, 12, 16):
            M.append(("bigtime", n, 0))
            M.append(("bigboots", n, 0))
    return M


def apply(seed: bytes, m):
    kind, a, b = m
    if kind == "subst":
        return seed[:a] + bytes([b]) + seed[a + 1:]
    if kind == "bitflip":
        x = bytearray(seed)
        x[a // 8] ^= 1 << (a % 8)
        return bytes(x)
    if kind == "truncate":
        return seed[:a]
    if kind == "nest":
        body = seed
        for _ in range(a):
            body = tlv(0x30, body, form=None if len(body) < 60000 else 3)[:65000]
        return body
    if kind == "nest_tail":          # deep nesting in front of the varbind list: 30 82 .. 30 82 ..
        return seed[:-4] + b"\x30\x84\x00\x00\xff\xff" * min(a, 9000)
    if kind == "random":
        r = random.Random(b)
        return bytes(r.randrange(256) for _ in range(a))
    if kind == "huge":
        return seed[:8] + b"\x04\x83\x00\xea\x60" + b"\x00" * a
    if kind == "overlap":
        total = 6 * a + 7
        out = bytearray()
        for i in range(a):
            rest = total - (6 * i + 6)
            out += b"\x30\x04\x30\x82" + bytes([rest >> 8, rest & 255])
        return bytes(out) + b"\x02\x01\x00\x05\x00\x05\x00"
    if kind == "opaque_ber":
        try:
            q = parse_community(seed)
        except Exception:  # noqa
            return seed
        keep = 2 if q["ptype"] == 0xa7 else 0          # a notification keeps its two leading bindings (uptime, trap OID)
        vbs = [(o, tlv(t, c)) for o, t, c in q["vbs"][:keep]]
        vbs += [(o, enc_str(OPAQUE_BER[a], 0x44 if i % 2 == 0 else 0x04)) for i, (o, _, _) in enumerate(q["vbs"][keep:] or [((1, 3, 6, 1, 4, 1, 99999, 1, 1, 0), 5, b"")])]
        return build_community(q["version"], q["community"], build_pdu(q["ptype"], q["reqid"], 0, 0, vbs), None)
    if kind == "many":
        try:
            q = parse_community(seed)
        except Exception:  # noqa   (v3 seeds: left alone)
            return seed
        vbs = [((1, 3, 6, (i >> 7) & 127, i & 127), NULL) for i in range(a)]
        forms = {"top": 3, "pdu": 3, "vbl": 3}
        return build_community(q["version"], q["community"], build_pdu(q["ptype"], q["reqid"], 0, 0, vbs), None)
    if kind == "insert80":
        return seed[:1] + b"\x80" + seed[2:] + b"\x00\x00"
    if kind == "straddle":           # declared length one short, next octet 0x80: the header straddles its container
        return seed[:a + 1] + b"\x80" + seed[a + 1:]
    raise ValueError(kind)


class RequestFlood(BaseException):
    """the client keeps sending requests for one operation: ends the case"""


def rss_kb():
    return resource.getrusage(resource.RUSAGE_SELF).ru_maxrss


async def run_target(target, proto, muts, seedsel):
    """target in {response, report, discovery, trap, resigned}; returns list of case events"""
    import puresnmp.util as U
    import time as _t
    out = []
    ag = make_agent({INST: enc_str(b"value-of-the-object"), PFX + (1, 2, 0): enc_int(42), PFX + (1, 3, 0): enc_oid((1, 3, 6, 1, 4))}, proto,
                    clock=lambda: 70000)
    state = dict(mut=None, seed=None)

    def mutate(raw):
        if state["mut"] is None:
            return raw
        state["seed_len"] = len(raw)
        m = state["mut"]
        state["mut"] = None
        return apply(raw, m)

    async def sender(endpoint, packet, timeout=None, retries=None):
        packet = bytes(packet)
        state["nreq"] = state.get("nreq", 0) + 1
        if state["nreq"] > 150:
            raise RequestFlood()
        is_probe = False
        if proto.startswith("v3"):
            try:
                is_probe = parse_v3(packet)["engine"] == b""
            except Exception:  # noqa
                pass
        if target == "resigned" and not is_probe and state["mut"] is not None:
            # mutate the plaintext scoped PDU, then sign / encrypt it properly: the damage is met *after* authentication
            raw = ag.handle(packet)
            q = ag.log[-1]
            try:
                pr = parse_v3(raw, decrypt=ag._decrypt)
                sp = apply(bytes(pr["spdu_plain"]), state["mut"])
                state["mut"] = None
                state["seed_len"] = len(sp)
                if len(sp) < 2 or sp[0] != 0x30:
                    sp = b"\x30" + sp[1:] if len(sp) > 1 else b"\x30\x00"
                u = ag.users[q["user"]]
                return ag.secure(u, q["msgid"], q["flags"] & 3, sp)
            except Exception:  # noqa
                return raw
        if target == "report" and not is_probe and state["mut"] is not None:
            q = parse_v3(packet)
            ag.log.append(q)
            u = ag.users.get(q["user"])
            raw = ag.report(q, "notInTimeWindows" if u and u.auth else "unknownUserNames", u, q["msgid"], 0)
            return mutate(raw)
        raw = ag.handle(packet)
        if target == "discovery":
            return mutate(raw) if is_probe else raw
        return raw if is_probe else mutate(raw)
    import puresnmp.api.raw, puresnmp_plugins.security.usm  # noqa
    _clk = patched_clock(lambda: 70000)
    _clk.__enter__()
    try:
        c = make_client(ag, proto, sender=sender)
        await c.get(OID(oidstr(INST)))           # warm up (discovery, plug-in loading, key localisation) - keeps the memory measurement honest
        for m in muts:
            if target == "discovery":
                c = make_client(ag, proto, sender=sender)        # a fresh client per case: its first exchange is the discovery
            state["mut"] = m
            state["seed_len"] = 0
            state["nreq"] = 0
            sticky = m[0] in ("reqid_forever", "bigtime", "bigboots", "bigtime_disco")
            if sticky:
                state["mut"] = None
                state["seed_len"] = 200
                if m[0] == "reqid_forever":
                    ag.perturb = lambda req, f: dict(f, reqid=f["reqid"] + 1 + m[1])
                elif m[0] == "bigboots":
                    ag.boots_override = 2 ** (8 * m[1]) - 5
                else:
                    ag.time_override = 2 ** (8 * m[1]) - 5
            r0 = rss_kb()
            t0 = time.process_time()
            try:
                with cpu_budget(1.5 if m[0] not in ("huge", "nest", "nest_tail", "many") else 6.0):
                    if target == "pyresponse":
                        from puresnmp import PyWrapper
                        if seedsel == "multiget":
                            await PyWrapper(c).multiget([oidstr(INST), oidstr(PFX + (1, 2, 0)), oidstr(PFX + (1, 3, 0))])
                        else:
                            await PyWrapper(c).get(oidstr(INST))
                    elif seedsel == "multiget":
                        await c.multiget([OID(oidstr(INST)), OID(oidstr(PFX + (1, 2, 0))), OID(oidstr(PFX + (1, 3, 0)))])
                    elif seedsel == "bulk":
                        await c.bulkget([], [OID(oidstr(PFX + (1,)))], 3)
                    else:
                        await c.get(OID(oidstr(INST)))
                outcome = "result"
            except CpuBudget:
                outcome = "CPU_BUDGET"
            except RequestFlood:
                outcome = "REQUEST_FLOOD"
            except MemoryError:
                outcome = "MEM_BUDGET"
            except Exception:  # noqa
                outcome = "exception"
            cpu = time.process_time() - t0
            state["mut"] = None
            state["nreq"] = 0
            if sticky and m[0] != "bigtime" and m[0] != "bigboots":
                ag.perturb, ag.time_override, ag.boots_override = None, None, None
            if sticky and m[0] in ("bigtime", "bigboots"):
                # one more exchange may still carry the bad values; then the agent is healthy again
                try:
                    with cpu_budget(3.0):
                        await c.get(OID(oidstr(INST)))
                except (Exception, CpuBudget, RequestFlood):  # noqa
                    pass
                ag.perturb, ag.time_override, ag.boots_override = None, None, None
                state["nreq"] = 0
                try:
                    with cpu_budget(3.0):
                        await c.get(OID(oidstr(INST)))
                except (Exception, CpuBudget, RequestFlood):  # noqa
                    pass
                state["nreq"] = 0
            try:
                with cpu_budget(3.0):
                    ok = (await c.get(OID(oidstr(INST)))).value == b"value-of-the-object"
            except (Exception, CpuBudget, RequestFlood):  # noqa
                ok = False
            out.append(dict(e="case", target=target, proto=proto, mut=list(m), len=max(state["seed_len"], 1) if m[0] not in ("huge", "nest", "nest_tail", "random", "many") else 65000,
                            outcome=outcome, cpu_ms=int(cpu * 1000), rss_growth_kb=max(0, rss_kb() - r0), followup_ok=bool(ok)))
    finally:
        _clk.__exit__(None, None, None)
    return out


def run_trap(muts):
    """malformed datagrams to the trap listener; the follow-up is a valid notification that must be delivered"""
    import drv_trap as T
    import puresnmp.api.raw as RAW
    from puresnmp.transport import SNMPTrapReceiverProtocol
    from puresnmp import V2C
    seed = T.notification(b"public", [(PFX + (1, 1), enc_int(5)), (PFX + (1, 2), enc_str(b"payload"))])
    out = []
    loop = asyncio.new_event_loop()
    captured, got = {}, []
    real_listen = RAW.listen

    async def fake_listen(a, p, cb, l):
        captured["proto"] = SNMPTrapReceiverProtocol(cb)

    async def cb(trap):
        got.append(trap)
    try:
        RAW.listen = fake_listen
        RAW.register_trap_callback(cb, "127.0.0.1", 16298, V2C("public"), loop)
        proto = captured["proto"]

        async def feed():
            for m in muts:
                data = apply(seed, m)
                r0 = rss_kb()
                t0 = time.process_time()
                try:
                    with cpu_budget(1.5 if m[0] not in ("huge", "nest", "nest_tail", "many") else 6.0):
                        proto.datagram_received(data, ("192.0.2.9", 1234))
                        await asyncio.sleep(0)
                    outcome = "dropped"
                except CpuBudget:
                    outcome = "CPU_BUDGET"
                except MemoryError:
                    outcome = "MEM_BUDGET"
                except Exception:  # noqa
                    outcome = "exception"
                cpu = time.process_time() - t0
                n0 = len(got)
                try:
                    with cpu_budget(3.0):
                        proto.datagram_received(seed, ("192.0.2.9", 1234))
                        for _ in range(3):
                            await asyncio.sleep(0)
                    ok = len(got) > n0
                except (Exception, CpuBudget):  # noqa
                    ok = False
                out.append(dict(e="case", target="trap", proto="v2c", mut=list(m), len=max(len(data), 1), outcome=outcome, cpu_ms=int(cpu * 1000),
                                rss_growth_kb=max(0, rss_kb() - r0), followup_ok=ok))
        loop.run_until_complete(feed())
    finally:
        RAW.listen = real_listen
        loop.close()
    return out, seed


def seed_bytes(target, proto, seedsel):
    """the unmutated datagram a target delivers (to derive the mutation catalogue from)"""
    cap = {}

    async def main():
        ag_holder = {}
        res = await run_target(target, proto, [("capture", 0, 0)], seedsel)
        return res
    # capture by applying an identity mutation that records the seed
    global apply
    real_apply = apply

    def capture_apply(seed, m):
        if m[0] == "capture":
            cap["seed"] = bytes(seed)
            return seed
        return real_apply(seed, m)
    apply = capture_apply
    try:
        asyncio.run(main())
    finally:
        apply = real_apply
    return cap.get("seed", b"")


def job(args):
    """one worker job: (target, proto, seedsel, muts) -> events"""
    target, proto, seedsel, muts = args
    if target == "trap":
        return run_trap(muts)[0]
    return asyncio.run(run_target(target, proto, muts, seedsel))
