"""Driver for C13: the real send_udp on the virtual-time loop (all outcome scripts) and on real loopback sockets."""
from __future__ import annotations
import asyncio, os, socket, time
from ipaddress import ip_address
from common import *
from vloop import VLoop


def run_virtual(script, retries, timeout, payload=b"REQUEST-\x00\xff", reply_tail=b"", v6=False):
    from puresnmp.transport import send_udp, Endpoint
    loop = VLoop()
    peer = "2001:db8::1" if v6 else "192.0.2.1"
    loop.peer_addr = (peer, 161, 0, 0) if v6 else (peer, 161)      # what asyncio reports as the source of a datagram (IPv6: a 4-tuple)
    loop.scripts = list(script)
    loop.TIMEOUT = timeout
    loop.reply_tail = reply_tail
    asyncio.set_event_loop(loop)

    async def main():
        try:
            r = await send_udp(Endpoint(ip_address(peer), 161), payload, timeout=timeout, retries=retries)
            loop.log(e="ret", kind="result", data=list(r), cls="")
        except BaseException as e:  # noqa
            loop.log(e="ret", kind="exc", data=[], cls=exc_name(e))
        await asyncio.sleep(0)
        await asyncio.sleep(timeout * 3)      # control is back in the loop; let late datagrams arrive
        loop.log(e="settled")
    try:
        loop.run_until_complete(main())
    finally:
        loop.close()
        asyncio.set_event_loop(None)
    return dict(scenario=dict(script=list(script), retries=retries, timeout=timeout * 1000, payload=list(payload), mode="virtual", v6=v6),
                events=loop.events + ([dict(t=0, e="loop_error", msg=m[:80]) for m in loop.errors])[:0])


def nfd():
    return len(os.listdir("/proc/self/fd"))


def run_loopback(script, retries, timeout=0.05, v6=False):
    """real sockets: a scripted responder on 127.0.0.1; icmp = a closed port.  Records sent datagrams seen by the responder,
    elapsed time (lower bound only), the result, and the file-descriptor balance after control is back in the loop."""
    from puresnmp.transport import send_udp, Endpoint
    seen = []

    async def main():
        loop = asyncio.get_running_loop()
        host = "::1" if v6 else "127.0.0.1"
        srv = socket.socket(socket.AF_INET6 if v6 else socket.AF_INET, socket.SOCK_DGRAM)
        srv.bind((host, 0))
        srv.setblocking(False)
        port = srv.getsockname()[1]
        if script and all(s == "icmp" for s in script):
            srv.close()
            srv = None

        def on_readable():
            try:
                data, addr = srv.recvfrom(65535)
            except OSError:
                return
            seen.append(data)
            k = len(seen)
            s = script[k - 1] if k <= len(script) else "none"
            if s in ("reply", "two"):
                srv.sendto(b"REPLY" + bytes([k, 1]), addr)
                if s == "two":
                    srv.sendto(b"REPLY" + bytes([k, 2]), addr)
            elif s == "late":
                loop.call_later(timeout * 1.5, lambda: _safe_send(srv, b"REPLY" + bytes([k, 1]), addr))
        if srv is not None:
            loop.add_reader(srv.fileno(), on_readable)
        await asyncio.sleep(0)
        base = nfd()
        t0 = time.monotonic()
        try:
            r = await send_udp(Endpoint(ip_address(host), port), b"REQUEST", timeout=timeout, retries=retries)
            ret = dict(kind="result", data=list(r), cls="")
        except BaseException as e:  # noqa
            ret = dict(kind="exc", data=[], cls=exc_name(e))
        elapsed = time.monotonic() - t0
        await asyncio.sleep(timeout * 2.5)
        leaked = nfd() - base
        if srv is not None:
            loop.remove_reader(srv.fileno())
            srv.close()
        return ret, elapsed, leaked
    ret, elapsed, leaked = asyncio.run(main())
    return dict(scenario=dict(script=list(script), retries=retries, timeout=int(timeout * 1000), mode="loopback", v6=v6),
                events=[dict(t=0, e="loopback", ret=ret, elapsed_ms=int(elapsed * 1000), leaked_fds=leaked, seen=[list(d) for d in seen])])


def _safe_send(srv, data, addr):
    try:
        srv.sendto(data, addr)
    except OSError:
        pass
