"""Driver for single request/response operations (C04, C07, C08): get, multiget, getnext,
multigetnext, set, multiset, bulkget against the reference agent, with a stepping clock and
scripted perturbations of the reply."""
from __future__ import annotations
import asyncio
from common import *
from absmap import *
from x690.types import ObjectIdentifier as OID

KIND = {GET: "get", GETNEXT: "getnext", SET: "set", GETBULK: "bulk"}


class Clock:
    def __init__(self, start, pattern, events):
        self.t, self.pattern, self.k, self.events = start, pattern or [0], 0, events

    def __call__(self):
        v = self.t
        self.events.append(dict(e="clock", v=str(v)))
        self.t += self.pattern[self.k % len(self.pattern)]
        self.k += 1
        return v


def abs_result(op, r):
    if op in ("get", "set"):
        return abs_x690(r)
    if op == "multiget":
        return [abs_x690(v) for v in r]
    if op == "getnext":
        return [absoid(r.oid.nodes), abs_x690(r.value)]
    if op == "multigetnext":
        return [[absoid(vb.oid.nodes), abs_x690(vb.value)] for vb in r]
    if op == "multiset":
        return [[absoid(k.nodes), abs_x690(v)] for k, v in r.items()]
    if op == "bulkget":
        return [[[absoid(k.nodes), abs_x690(v)] for k, v in r.scalars.items()],
                [[absoid(k.nodes), abs_x690(v)] for k, v in r.listing.items()]]
    raise ValueError(op)


async def run_scenario(sc):
    import puresnmp.util as U
    events = []
    proto = sc.get("proto", "v2c")
    ag = make_agent({conc(o): enc_abs(v) for o, v in sc["db"]}, proto)
    c = make_client(ag, proto)
    op = sc["op"]
    oids = [OID(oidstr(conc(o))) for o in sc["oids"]]
    pert = sc.get("perturb", "none")
    import puresnmp.api.raw, puresnmp_plugins.security.usm  # noqa
    _clk = None
    try:
        if proto.startswith("v3"):
            if sc.get("disco"):
                ag.disco_delta = {"echo": 0, "plus1": 1, "minus1": -1}[sc["disco"]]
                ag.on_discovery = lambda req: events.append(dict(e="disco", msgid=str(req["msgid"]), reply_msgid=str(req["msgid"] + ag.disco_delta)))
            else:
                await c.get(OID("1.3.6.1.2.1.1.1.0")) if False else None
                # warm-up: run discovery before the stepping clock is installed
                from puresnmp.pdu import GetRequest, PDUContent
                await c.mpm.encode(1, c.credentials, b"", b"", GetRequest(PDUContent(1, [])))
        if sc.get("recomm") and proto in ("v1", "v2c"):
            # history: the client has exchanged messages under another community of the same family, then was re-configured: from now on
            # responses are checked against the community in force (requests carry it, C05; here: the responses)
            from puresnmp import V1, V2C
            cls = V1 if proto == "v1" else V2C
            ag.community = b"first"
            c.configure(credentials=cls("first"))
            try:
                await c.get(OID("1.3.6.1.2.1.1.1.0"))
            except Exception:  # noqa
                pass
            if sc["recomm"] == "block":
                _blk = c.reconfigure(credentials=cls("public"))
                _blk.__enter__()
            else:
                c.configure(credentials=cls("public"))
            ag.community = b"public"
            ag.nreq = 0
        if sc.get("engine_change"):
            # the agent is replaced / reset between discovery and the request: it answers the request with an unknownEngineID
            # Report; whatever the client does next (give up, or discover again and repeat), ids must still be checked
            ag.engine = b"\x80\x00\x1f\x88\x80neweng01"
        # every request-id generation is one read of the stepping clock
        _ck = Clock(sc.get("t0", 1000), sc.get("ticks"), events)
        _clk = patched_clock(None, request_id=_ck)
        _clk.__enter__()

        def on_request(req):
            kind = KIND.get(req["ptype"], "other")
            events.append(dict(e="req", kind=kind, reqid=str(req["reqid"]), oids=[absoid(o) for o, _, _ in req["vbs"]],
                               vals=[abs_enc(t, cc) for _, t, cc in req["vbs"]],
                               nonrep=req["f1"] if kind == "bulk" else 0, maxrep=req["f2"] if kind == "bulk" else 0,
                               es=0 if kind == "bulk" else req["f1"], ei=0 if kind == "bulk" else req["f2"],
                               ver={0: "v1", 1: "v2c", 3: "v3"}[req["version"]]))

        def perturb(req, f):
            if pert == "extra":
                f["vbs"] = f["vbs"] + [(conc([9, 9]), enc_abs(["Integer", 99]))]
            elif pert == "dropped":
                f["vbs"] = f["vbs"][:-1]
            elif pert == "oversize":
                n = min(req["f1"], len(req["vbs"]))
                limit = n + req["f2"] * (len(req["vbs"]) - n)
                f["vbs"] = f["vbs"] + [(conc([9, 9]), enc_abs(["Integer", 99]))] * (limit + 1 - len(f["vbs"]))
            elif pert == "set_other":
                # the agent confirms other values than the ones supplied (normalised / clamped on write, or another type)
                f["vbs"] = [(o, enc_abs(["OctetString", 200 + i]) if i % 2 else enc_abs(["Integer", 100 + i])) for i, (o, _) in enumerate(f["vbs"])]
            elif pert == "id_plus":
                f["reqid"] += 1
            elif pert == "id_minus":
                f["reqid"] -= 1
            elif pert == "id_arb":
                f["reqid"] = 7
            elif pert in ("id_maxint", "id_zero", "id_minus1", "id_minint"):
                v = {"id_maxint": 2 ** 31 - 1, "id_zero": 0, "id_minus1": -1, "id_minint": -2 ** 31}[pert]
                f["reqid"] = v if v != f["reqid"] else v - 3
            elif pert == "id_p32":
                f["reqid"] += 2 ** 32
            elif pert == "id_m32":
                f["reqid"] -= 2 ** 32
            elif pert == "id_neg":
                f["reqid"] = -f["reqid"] if f["reqid"] else 1
            elif pert == "id_p64":
                f["reqid"] += 2 ** 64
            if pert in ("wrong_comm", "wrong_ver") and sc.get("es"):
                f["es"], f["ei"] = sc["es"], sc.get("ei", 0)
                f["vbs"] = [(o, NULL) for o, _, _ in req["vbs"]]
            if pert.startswith("id_") and sc.get("es"):
                # C07: an error response carrying another request-id is not the answer to this request
                f["es"], f["ei"] = sc["es"], sc.get("ei", 0)
                f["vbs"] = [(o, NULL) for o, _, _ in req["vbs"]]
            elif pert == "wrong_comm":
                f["community"] = sc.get("wrong_comm", "private").encode()
            elif pert == "wrong_ver":
                f["version"] = 1 - f["version"]
            elif pert == "err":
                f["es"], f["ei"] = sc["es"], sc["ei"]
                f["vbs"] = [(o, NULL) for o, _, _ in req["vbs"]] if sc.get("echo", True) else []
            return f

        def on_reply(req, f):
            events.append(dict(e="resp", reqid=str(f["reqid"]), es=f["es"], ei=f["ei"],
                               vbs=[[absoid(o), abs_enc(v[0], dec_tlv(v)[1:3] and v[dec_tlv(v)[1]:dec_tlv(v)[2]])] for o, v in f["vbs"]],
                               commok=f.get("community", b"public") == b"public", verok=f.get("version", req["version"]) == req["version"]))
        ag.on_request, ag.perturb, ag.on_reply = on_request, perturb, on_reply
        # perturb runs before on_reply in the agent
        call = dict(e="call", op=op, oids=sc["oids"], nr=sc.get("nr", 0), mr=sc.get("mr", 0), vals=sc.get("setvals", []))
        events.append(call)
        import contextlib
        # the same operation issued inside a temporary-reconfiguration block: results and exceptions pass through it unchanged
        block = c.reconfigure(timeout=3) if sc.get("inblock") else contextlib.nullcontext()
        try:
          with block:
              if op == "get":
                  r = await c.get(oids[0])
              elif op == "multiget":
                  if sc.get("again"):
                      events_backup = list(events)
                      await c.multiget(oids)
                      del events[:]
                      events.extend(events_backup)
                  r = await c.multiget(oids)
              elif op == "getnext":
                  r = await c.getnext(oids[0])
              elif op == "multigetnext":
                  r = await c.multigetnext(oids)
              elif op == "set":
                  val = mk_x690(sc["setvals"][0])
                  if sc.get("fromget"):
                      # the value written is an object the client handed out earlier (read from one object, written to another)
                      events_backup = list(events)
                      val = await c.get(OID(oidstr(conc(sc["db"][0][0]))))
                      del events[:]
                      events.extend(events_backup)
                      events[-1]["vals"] = [abs_x690(val)]
                      ag.nreq = 0
                  r = await c.set(oids[0], val)
              elif op == "multiset":
                  r = await c.multiset({o: mk_x690(v) for o, v in zip(oids, sc["setvals"])})
              elif op == "bulkget":
                  nr = sc.get("nr", 0)
                  sca, rep = oids[:nr], oids[nr:]
                  if sc.get("again"):
                      # a polling loop hands the SAME list objects to every call: an earlier call must not have changed them
                      events_backup = list(events)
                      await c.bulkget(sca, rep, sc.get("mr", 1))
                      del events[:]
                      events.extend(events_backup)
                      ag.nreq = 0
                  r = await c.bulkget(sca, rep, sc.get("mr", 1))
              else:
                  raise ValueError(op)
          events.append(dict(e="ret", kind="result", cls="", snmp=False, status=0, oid=[], data=abs_result(op, r)))
        except Exception as ex:  # noqa
            st = getattr(ex, "error_status", 0)
            oo = getattr(ex, "offending_oid", None)
            events.append(dict(e="ret", kind="exc", cls=exc_name(ex), snmp=is_snmp_error(ex), status=st if isinstance(st, int) else 0,
                               oid=absoid(oo.nodes) if oo is not None and len(oo.nodes) > 1 else [], data=[]))
    finally:
        if _clk is not None:
            _clk.__exit__(None, None, None)
    return dict(scenario=sc, events=events)


async def run_overlap(sc):
    """Two operations in flight on ONE client: A is sent at clock t and held by the network, B is sent at t+dt and answered at
    once, then A's answer is delivered - conformant, or carrying B's request-id ("swap").  -> two traces (one per operation) in
    the event format of run_scenario, judged by the same monitor."""
    proto = sc.get("proto", "v2c")
    ag = make_agent({conc(o): enc_abs(v) for o, v in sc["db"]}, proto)
    evs = {"A": [], "B": []}
    ids = {}
    gate = asyncio.Event()
    tick = [sc.get("t0", 1000)]
    which_of = {tuple(map(tuple, sc["oids"])): "A", tuple(map(tuple, sc["oidsB"])): "B"}
    cur = {}

    def on_request(req):
        kind = KIND.get(req["ptype"], "other")
        w = which_of.get(tuple(tuple(absoid(o)) for o, _, _ in req["vbs"]), "A")
        cur["w"] = w
        ids[w] = req["reqid"]
        evs[w].append(dict(e="req", kind=kind, reqid=str(req["reqid"]), oids=[absoid(o) for o, _, _ in req["vbs"]],
                           vals=[abs_enc(t, cc) for _, t, cc in req["vbs"]], nonrep=0, maxrep=0, es=req["f1"], ei=req["f2"],
                           ver={0: "v1", 1: "v2c", 3: "v3"}[req["version"]]))

    def perturb(req, f):
        if cur["w"] == "A" and sc.get("perturb") == "swap" and "B" in ids:
            f["reqid"] = ids["B"]
        return f

    def on_reply(req, f):
        evs[cur["w"]].append(dict(e="resp", reqid=str(f["reqid"]), es=f["es"], ei=f["ei"],
                                  vbs=[[absoid(o), abs_enc(v[0], v[dec_tlv(v)[1]:dec_tlv(v)[2]])] for o, v in f["vbs"]], commok=True, verok=True))
    ag.on_request, ag.on_reply = on_request, on_reply

    async def sender(endpoint, packet, timeout=None, retries=None):
        pk = bytes(packet)
        first = not cur.get("held")
        if first and ag.ndisco_done:
            cur["held"] = True
            await gate.wait()                  # A's datagram is in flight while B runs
        ag.perturb = perturb if ag.ndisco_done else None
        return ag.handle(pk)
    ag.ndisco_done = not proto.startswith("v3")
    c = make_client(ag, proto, sender=sender)
    import puresnmp.api.raw, puresnmp_plugins.security.usm  # noqa
    if proto.startswith("v3"):
        from puresnmp.pdu import GetRequest, PDUContent
        await c.mpm.encode(1, c.credentials, b"", b"", GetRequest(PDUContent(1, [])))
        ag.ndisco_done = True

    def clock():
        v = tick[0]
        return v

    async def one(w, op, oids_abs):
        oids = [OID(oidstr(conc(o))) for o in oids_abs]
        evs[w].append(dict(e="call", op=op, oids=oids_abs, nr=0, mr=0, vals=[]))
        try:
            r = await (c.get(oids[0]) if op == "get" else c.getnext(oids[0]) if op == "getnext" else c.multiget(oids))
            evs[w].append(dict(e="ret", kind="result", cls="", snmp=False, status=0, oid=[], data=abs_result(op, r)))
        except Exception as ex:  # noqa
            st = getattr(ex, "error_status", 0)
            oo = getattr(ex, "offending_oid", None)
            evs[w].append(dict(e="ret", kind="exc", cls=exc_name(ex), snmp=is_snmp_error(ex), status=st if isinstance(st, int) else 0,
                               oid=absoid(oo.nodes) if oo is not None and len(oo.nodes) > 1 else [], data=[]))
    with patched_clock(None, request_id=clock):
        ta = asyncio.ensure_future(one("A", sc["op"], sc["oids"]))
        for _ in range(20):
            await asyncio.sleep(0)
            if cur.get("held"):
                break
        tick[0] += sc.get("dt", 1)
        await one("B", sc["opB"], sc["oidsB"])
        gate.set()
        await ta
    return [dict(scenario=dict(sc, overlap="A"), events=evs["A"]),
            dict(scenario=dict(sc, overlap="B", op=sc["opB"], oids=sc["oidsB"], perturb="none"), events=evs["B"])]


def run_all(scenarios):
    async def main():
        out = []
        for sc in scenarios:
            with use_prefix(sc.get("pfx")), debug_logging(bool(sc.get("debuglog"))):
                if sc.get("oidsB"):
                    out.extend(await run_overlap(sc))
                else:
                    out.append(await run_scenario(sc))
        return out
    return asyncio.run(main())
