"""Driver for the walk family (C01, C02, C03, C16): replays scenarios into the real
client behind the sender seam and records one trace per scenario."""
from __future__ import annotations
import asyncio, random
from common import *
from x690.types import ObjectIdentifier as OID


def token(o):
    t = 0
    for a in o:
        t = t * 1000 + a
    return t


CUTS = {
    "full": lambda k, n, L: L,
    "one_row": lambda k, n, L: n,
    "minus_one": lambda k, n, L: L - 1,
    "row_plus_one": lambda k, n, L: n + 1,
    # the response does not even hold one repetition (many roots / large values): cut inside the first row, alternating with full answers
    "partial_first": lambda k, n, L: max(1, n - 1) if k % 2 else L,
    "partial_first_always": lambda k, n, L: max(1, (n + 1) // 2),
}


def seeded_cut(seed):
    rnd = random.Random(seed)
    return lambda k, n, L: rnd.randint(n, max(n, L))


def mapping(sc):
    """abstract <-> concrete OIDs.  deep: insert a constant arc after the first one (order-preserving) so that
    instances lie two arcs below a one-arc root, as bulktable() requires of a table OID."""
    if not sc.get("deep"):
        return conc, absoid

    def c(o):
        o = list(o)
        return cur_pfx() + tuple(o[:1] + [1] + o[1:]) if len(o) >= 2 else cur_pfx() + tuple(o)

    def a(arcs):
        r = absoid(arcs)
        if r and r[0] != "X" and len(r) >= 3 and r[1] == 1:
            return r[:1] + r[2:]
        return r if len(r) < 2 or r[0] == "X" else ["X"] + r
    return c, a


def build_agent(sc, events, proto):
    conc, absoid = mapping(sc)
    if sc.get("f") is not None:
        ag = make_agent({}, proto)
        ag.faulty = {conc(a): ("eomv" if b == [0] else conc(b)) for a, b in sc["f"]}
        ag.val = lambda oid: enc_int(token(absoid(oid)))
    elif sc.get("toks"):
        ag = make_agent({conc(o): enc_int(t) for o, t in zip(sc["db"], sc["toks"])}, proto)
    else:
        ag = make_agent({conc(o): enc_int(token(o)) for o in sc["db"]}, proto)
    if sc.get("volatile"):
        # the agent's objects change while it answers (counters, sysUpTime): two bindings of one instance - in one response or in
        # two - need not carry the same value (RFC 3416 asks for no snapshot)
        serves = [0]
        base = ag.val

        def volatile_val(oid):
            serves[0] += 1
            return enc_int((serves[0] % 1000) * 1000000 + dec_int(base(oid)[2:]) % 1000000)
        ag.val = volatile_val
    cut = sc.get("cut", "full")
    ag.cut = CUTS[cut] if cut in CUTS else seeded_cut(int(cut.split(":")[1]))
    ag.partial_first = cut.startswith("partial_first")
    ag.budget = sc.get("budget", 400)

    def on_request(req):
        kind = {GETNEXT: "getnext", GETBULK: "bulk", GET: "get", SET: "set"}.get(req["ptype"], "other")
        events.append(dict(e="req", kind=kind, oids=[absoid(o) for o, _, _ in req["vbs"]],
                           nonrep=req["f1"] if kind == "bulk" else 0, maxrep=req["f2"] if kind == "bulk" else 0))

    def on_reply(req, fields):
        events.append(dict(e="resp", es=fields["es"],
                           vbs=[[absoid(o), -1 if v == EOMV else 0 if v == NULL else dec_int(v[2:])] for o, v in fields["vbs"]]))
    ag.on_request, ag.on_reply = on_request, on_reply
    if sc.get("idonly"):
        # C07: the k-th reply is an ordinary answer that carries another request-id
        def perturb_id(req, f, _k=sc["idonly"]["at"], _d=sc["idonly"]["delta"]):
            if ag.nreq == _k + ag.ndisco:
                f["reqid"] += _d
            return f
        ag.perturb = perturb_id
    if sc.get("err"):
        # scripted error-status reply to the k-th request (C08: walk-style operations propagate it)
        k, es, ei = sc["err"]["at"], sc["err"]["es"], sc["err"]["ei"]
        if sc["err"].get("foreign"):
            # ... and the reply belongs to another community / protocol version
            def perturb(req, f, _k=sc["err"]["at"], _w=sc["err"]["foreign"]):
                if ag.nreq == _k + ag.ndisco:
                    if _w == "comm":
                        f["community"] = b"another"
                    else:
                        f["version"] = 1 - f["version"]
                return f
            ag.perturb = perturb
        idd = sc["err"].get("iddelta", 0)       # C07: an error response that carries another request-id is not this request's answer
        ag.script = lambda req: dict(es=es, ei=ei, iddelta=idd, vbs=[(o, NULL) for o, _, _ in req["vbs"]]) if ag.nreq == k + ag.ndisco else None
    return ag


async def run_scenario(sc):
    """-> trace dict {scenario, events}"""
    from puresnmp import PyWrapper
    events = []
    proto = sc.get("proto", "v2c")
    api = sc["api"]
    ag = build_agent(sc, events, proto)
    conc, absoid = mapping(sc)
    c = make_client(ag, proto)
    import puresnmp.api.raw, puresnmp_plugins.security.usm  # noqa
    _clk = None
    if sc.get("ticks"):
        t = [sc.get("t0", 5000)]

        def clock():
            v = t[0]
            t[0] += sc["ticks"][0]
            return v
        _clk = patched_clock(None, request_id=clock)
        _clk.__enter__()
    roots = [OID(oidstr(conc(r))) for r in sc["roots"]]
    sroots = [oidstr(conc(r)) for r in sc["roots"]]
    bulk = sc.get("bulk", 0)
    errors = sc.get("errors", "strict")
    if api == "multiwalk_fetcher" and not hasattr(c, "_bulkwalk_fetcher"):
        errors = "strict"
        sc = dict(sc, errors="strict")
    events.append(dict(e="call", api=api, roots=sc["roots"], bulk=bulk, errors=errors))
    try:
        it = None
        rows = None
        if api == "walk":
            it = c.walk(roots[0], errors=errors)
        elif api == "multiwalk":
            it = c.multiwalk(roots, errors=errors)
        elif api == "bulkwalk":
            it = c.bulkwalk(roots, bulk_size=bulk)
        elif api == "multiwalk_fetcher":
            # the GETBULK fetcher handed to multiwalk by the caller: the only way to a lenient bulk walk
            mk = getattr(c, "_bulkwalk_fetcher", None)
            it = c.multiwalk(roots, fetcher=mk(bulk), errors=errors) if mk is not None else c.bulkwalk(roots, bulk_size=bulk)
        elif api == "py.walk":
            it = PyWrapper(c).walk(sroots[0], errors=errors)
        elif api == "py.multiwalk":
            it = PyWrapper(c).multiwalk(sroots)
        elif api == "py.bulkwalk":
            it = PyWrapper(c).bulkwalk(sroots, bulk_size=bulk)
        elif api == "table":
            rows = await c.table(roots[0])
        elif api == "bulktable":
            rows = await c.bulktable(roots[0], bulk_size=bulk)
        elif api == "py.table":
            rows = await PyWrapper(c).table(sroots[0])
        elif api == "py.bulktable":
            rows = await PyWrapper(c).bulktable(sroots[0], bulk_size=bulk)
        else:
            raise ValueError(api)
        if it is not None:
            async for vb in it:
                if api.startswith("py."):
                    o = tuple(int(x) for x in vb.oid.split("."))
                    v = vb.value
                else:
                    o = tuple(vb.oid.nodes)
                    v = vb.value.value
                events.append(dict(e="yield", oid=absoid(o), val=v if isinstance(v, int) else -2))
        if rows is not None:
            out = []
            for r in rows:
                cells = []
                for k, v in sorted(r.items()):
                    if k == "0":
                        continue
                    pv = v if api.startswith("py.") else v.value
                    cells.append([int(k), pv if isinstance(pv, int) else -2])
                out.append(dict(idx=[int(x) for x in str(r["0"]).split(".")] if r["0"] != "" else [], cells=cells))
            events.append(dict(e="rows", rows=out))
        events.append(dict(e="end", outcome="done"))
    except BudgetExceeded:
        events.append(dict(e="end", outcome="BUDGET"))
    except Exception as ex:       # noqa
        events.append(dict(e="end", outcome=exc_name(ex), snmp=is_snmp_error(ex)))
    finally:
        if _clk is not None:
            _clk.__exit__(None, None, None)
    return dict(scenario=sc, events=events)


def _rows_event(rows, py):
    out = []
    for r in rows:
        cells = []
        for k, v in sorted(r.items()):
            if k == "0":
                continue
            pv = v if py else v.value
            cells.append([int(k), pv if isinstance(pv, int) else -2])
        out.append(dict(idx=[int(x) for x in str(r["0"]).split(".")] if r["0"] != "" else [], cells=cells))
    return dict(e="rows", rows=out)


async def run_pair(sc):
    """C16 under a schedule: table(entry) and bulktable(table) of the same table running concurrently on ONE client (the sender yields to the
    event loop before every answer, so their requests interleave).  -> two traces, judged like the sequential ones."""
    from puresnmp import Client
    events = []
    proto = sc.get("proto", "v2c")
    ag = build_agent(sc, events, proto)
    conc_, absoid_ = mapping(sc)

    async def sender(endpoint, packet, timeout=None, retries=None):
        for _ in range(sc.get("yields", 1)):
            await asyncio.sleep(0)
        return ag.handle(bytes(packet))
    c = make_client(ag, proto, sender=sender)
    entry, table = OID(oidstr(conc_(sc["entry"]))), OID(oidstr(conc_(sc["entry"][:-1])))
    res = await asyncio.gather(c.table(entry), c.bulktable(table, bulk_size=sc["bulk"]), c.table(entry), return_exceptions=True)
    out = []
    for api, r in zip(("table", "bulktable", "table"), res):
        ev = [dict(e="call", api=api, roots=sc["roots"], bulk=sc["bulk"] if api == "bulktable" else 0, errors="strict")]
        if isinstance(r, BaseException):
            ev.append(dict(e="end", outcome=exc_name(r), snmp=is_snmp_error(r)))
        else:
            ev += [_rows_event(r, False), dict(e="end", outcome="done")]
        out.append(dict(scenario=dict(sc, api=api, pair=True), events=ev))
    return out


async def run_placed(sc):
    if sc.get("api") == "pair":
        with use_prefix(sc.get("pfx")), debug_logging(bool(sc.get("debuglog"))):
            return await run_pair(sc)
    with use_prefix(sc.get("pfx")), debug_logging(bool(sc.get("debuglog"))):
        return await run_scenario(sc)


def run_all(scenarios):
    async def main():
        out = []
        for sc in scenarios:
            r = await run_placed(sc)
            out.extend(r if isinstance(r, list) else [r])
        return out
    return asyncio.run(main())


if __name__ == "__main__":
    import json, sys
    scs = json.load(open(sys.argv[1]))
    json.dump(run_all(scs), open(sys.argv[2], "w"))
