"""Driver for the USM properties C10 (interop) and C11 (privacy): one recorded exchange per scenario.
The reference agent verifies every request with its own RFC 3414 implementation; the recording privacy
plug-in (verifstream) logs what the client asked it to encrypt / decrypt."""
from __future__ import annotations
import asyncio
from common import *
from berforms import canon_int
from refagent import localised_key, HNAME
from x690.types import ObjectIdentifier as OID, OctetString, Integer
import puresnmp_plugins.priv.verifstream as VS

OPS = ["get", "getnext", "bulkget", "set", "multiget", "walk", "multiset", "bulkwalk"]


def make_user(sc):
    auth = (sc["hash"], bytes(sc["authpw"])) if sc["level"] != "noauth" else None
    priv = (sc.get("privmethod", "verifstream"), bytes(sc["privpw"])) if sc["level"] == "authpriv" else None
    return User(sc.get("user", "usr").encode(), auth, priv)


def make_creds(sc):
    from puresnmp import V3, Auth, Priv
    u = make_user(sc)
    return V3(u.name.decode(), Auth(u.auth[1], u.auth[0]) if u.auth else None, Priv(u.priv[1], u.priv[0]) if u.priv else None)


async def run_exchange(sc, client=None, agent=None):
    """-> event dict (e = "xchg")"""
    import time as _t
    from puresnmp import Client
    u = make_user(sc)
    engine = bytes(sc.get("engine", b"\x80\x00\x1f\x88\x80verifeng"))
    pad = sc.get("pad", 0)
    secret = bytes(sc.get("secret", b"s3cr3t-value-%d" % pad))
    inst = PFX + (1, 1, 0)
    ag = agent or Agent({inst: enc_str(b"x" * pad), PFX + (1, 2, 0): enc_int(7)}, users=[u], engine=engine, boots=sc.get("boots", 7),
                        clock=lambda: sc.get("now", 50000))
    if agent is None:
        ag.mib.set(inst, enc_str(b"x" * pad))
    if "report_ctx" in sc:
        ag.report_ctx_engine = bytes(sc["report_ctx"])
    import puresnmp.api.raw, puresnmp_plugins.security.usm  # noqa
    _clk = patched_clock(lambda: sc.get("now", 50000))
    _clk.__enter__()
    sent = []
    rec = {}

    async def sender(endpoint, packet, timeout=None, retries=None):
        sent.append(bytes(packet))
        return ag.handle(bytes(packet))
    c = client or Client("192.0.2.1", make_creds(sc), sender=sender, context_name=bytes(sc.get("ctxname", b"")), engine_id=bytes(sc.get("ctxengine", b"")))
    op = sc["op"]
    t_known = None
    if sc.get("resp_lag"):
        # the agent's answers are stamped a little behind what the client already knows (responses overtaking one another, a clock
        # stepped back): still inside the window, and they must be decrypted with the parameters they carry themselves
        try:
            await c.get(OID(oidstr(PFX + (1, 2, 0))))
        except Exception:  # noqa
            pass
        t_known = ag.engine_time()
        ag.time_override = t_known - sc["resp_lag"]
    if sc.get("agent_es"):
        # the agent answers the operation with an (authentic, encrypted where applicable) error response
        ag.script = lambda req: dict(es=sc["agent_es"], ei=1, vbs=[(o_, NULL) for o_, _, _ in req["vbs"]])
    if sc.get("prior_report"):
        # history: an earlier request of this client was answered with a usmStats Report (it fails); what follows must be secured as ever
        ag.force_report = sc["prior_report"]
        try:
            await c.get(OID(oidstr(PFX + (1, 2, 0))))
        except Exception:  # noqa
            pass
    VS.CALLS.clear()
    nlog = len(ag.log)
    o = OID(oidstr(inst))
    ptype = {"get": GET, "multiget": GET, "getnext": GETNEXT, "walk": GETNEXT, "bulkget": GETBULK, "bulkwalk": GETBULK, "set": SET, "multiset": SET,
             "padget": GET, "padgetnext": GETNEXT, "padbulk": GETBULK, "padset": SET}[op]
    # request-side padding: OIDs with `reqpad` extra one-octet arcs spread over as many OIDs as needed
    rp = sc.get("reqpad", 0)
    padoids = []
    while True:
        k = min(rp, 110)
        padoids.append(OID(oidstr(PFX + (5, len(padoids) + 1) + (1,) * k)))
        rp -= k
        if rp <= 0:
            break
    try:
        try:
            if op == "get":
                r = await c.get(o)
                match = r.value == b"x" * pad
            elif op == "multiget":
                r = await c.multiget([o, OID(oidstr(PFX + (1, 2, 0)))])
                match = r[0].value == b"x" * pad and r[1].value == 7
            elif op == "getnext":
                r = await c.getnext(OID(oidstr(PFX + (1,))))
                match = tuple(r.oid.nodes) == inst and r.value.value == b"x" * pad
            elif op == "walk":
                r = [vb async for vb in c.walk(OID(oidstr(PFX + (1,))))]
                match = [tuple(vb.oid.nodes) for vb in r] == [inst, PFX + (1, 2, 0)]
            elif op == "bulkget":
                r = await c.bulkget([], [OID(oidstr(PFX + (1,)))], 2)
                match = [tuple(k.nodes) for k in r.listing] == [inst, PFX + (1, 2, 0)]
            elif op == "bulkwalk":
                r = [vb async for vb in c.bulkwalk([OID(oidstr(PFX + (1,)))], bulk_size=3)]
                match = [tuple(vb.oid.nodes) for vb in r] == [inst, PFX + (1, 2, 0)]
            elif op == "set":
                r = await c.set(OID(oidstr(PFX + (9, 0))), OctetString(secret))
                match = r.value == secret
            elif op == "padget":
                r = await c.multiget(padoids)
                match = len(r) == len(padoids)
            elif op == "padgetnext":
                r = await c.multigetnext(padoids)
                match = True
            elif op == "padbulk":
                r = await c.bulkget([], padoids, 1)
                match = True
            elif op == "padset":
                r = await c.multiset({o_: Integer(1) for o_ in padoids})
                match = len(r) == len(padoids)
            elif op == "multiset":
                r = await c.multiset({OID(oidstr(PFX + (9, 0))): OctetString(secret), OID(oidstr(PFX + (9, 1))): Integer(5)})
                match = [v.value for v in r.values()] == [secret, 5]
            ret = dict(kind="result", cls="", match=bool(match))
        except Exception as e:  # noqa
            ret = dict(kind="exc", cls=exc_name(e), match=False)
    finally:
        _clk.__exit__(None, None, None)
    # the first data request of this operation as the agent saw it
    reqs = [r for r in ag.log[nlog:] if r.get("engine") == engine]
    ev = dict(e="xchg", op=op, level=sc["level"], ret=ret, nreq=len(reqs), agent_es=sc.get("agent_es", 0))
    if not reqs:
        ev["req"] = dict(raw=[], plain=[], digest_ok=False, verdict="no-request", boots=[0], time=[0])
        return ev, c, ag
    q = reqs[0]
    plain = list(q.get("spdu_plain", b"")) if sc["level"] == "authpriv" else []
    ev["req"] = dict(raw=list(q["raw"]), plain=plain, digest_ok=bool(q.get("digest_ok", sc["level"] == "noauth")), verdict=q.get("verdict", "?"),
                     boots=canon_int(ag.boots), time=canon_int(t_known if t_known is not None else q.get("agent_time", ag.engine_time())))
    ev["verdicts"] = [r.get("verdict", "?") for r in reqs]
    ev["intended"] = dict(flags=(1 if u.auth else 0) | (2 if u.priv else 0), user=list(u.name), engine=list(engine),
                          ctxengine=list(sc.get("ctxengine") or engine), ctxname=list(sc.get("ctxname", b"")), ptype=ptype)
    rr = q.get("reply_raw", b"")
    if rr:
        try:
            pr = parse_v3(rr, decrypt=ag._decrypt)
            _, cs, ce, _ = dec_tlv(rr)
            ev["resp"] = dict(total=len(rr), spdu=len(pr.get("spdu_plain", b"")), salt=list(pr["priv"]), cipher=list(pr.get("cipher", b"")),
                              boots=pr["boots"], time=pr["time"], engine=list(pr["engine"]))
        except Exception:  # noqa
            ev["resp"] = dict(total=len(rr), spdu=0, salt=[], cipher=[], boots=0, time=0, engine=[])
    if sc["level"] == "authpriv":
        encs = [cl for cl in VS.CALLS if cl["kind"] == "encrypt"]
        decs = [cl for cl in VS.CALLS if cl["kind"] == "decrypt"]
        f = lambda cl: dict(key=list(cl["key"]), engine=list(cl["engine"]), boots=cl["boots"], time=cl["time"], data=list(cl["data"]), out=list(cl["out"]), salt=list(cl["salt"]))
        ev["enc"] = f(encs[0]) if encs else dict(key=[], engine=[], boots=0, time=0, data=[], out=[], salt=[])
        ev["dec"] = f(decs[0]) if decs else dict(key=[], engine=[], boots=0, time=0, data=[], out=[], salt=[])
        ev["expkey"] = list(localised_key(HNAME[u.auth[0]], u.priv[1], engine))
        raw0 = bytes(q["raw"])
        sp = bytes(q.get("spdu_plain", b""))
        ev["secret_visible"] = (op in ("set", "multiset") and secret in raw0) or (len(sp) > 8 and sp[4:] in raw0) or any(secret in s for s in sent)
    return ev, c, ag


def run_all(scenarios):
    async def main():
        out = []
        for sc in scenarios:
            if sc.get("second_client"):
                # history in one process: a first client talks to the engine, the engine restarts (boots + 1, time from 0), a NEW client talks to it
                _, _, ag = await run_exchange(dict(sc, op="get"))
                ag.reboot()
                ag.script = None
                ev, _, _ = await run_exchange(sc, agent=ag)
            else:
                ev, _, _ = await run_exchange(sc)
            out.append(dict(scenario={k: (list(v) if isinstance(v, (bytes, bytearray)) else v) for k, v in sc.items()}, events=[ev]))
        return out
    return asyncio.run(main())
