"""Driver for C14: a controllable scheduler.  Every call of the sender parks on a future, attributed to its operation
through a contextvar; the scenario dictates the order in which parked requests are answered; the loop runs to
quiescence between releases, so a release order determines the execution."""
from __future__ import annotations
import asyncio, contextvars, itertools
from common import *
from x690.types import ObjectIdentifier as OID, OctetString, Integer

CURRENT = contextvars.ContextVar("verif_op", default="?")
DBV = [[1, 1, 1], [1, 1, 2], [1, 1, 3], [1, 2, 1], [1, 2, 2], [2, 1, 1], [2, 1, 2], [3, 1, 0], [3, 2, 0]]


def mk_mib(salt=0):
    return {conc(o): enc_int(100 * salt + i + 1) for i, o in enumerate(DBV)}


OPDEFS = {
    "get": lambda c: c.get(OID(oidstr(conc([3, 1, 0])))),
    "get2": lambda c: c.get(OID(oidstr(conc([3, 2, 0])))),
    "get3": lambda c: c.get(OID(oidstr(conc([1, 1, 1])))),          # the very OID the walks over [1] / [1,1] continue from (GET vs GETNEXT of the same name)
    "next3": lambda c: c.getnext(OID(oidstr(conc([1, 1, 1])))),
    "mget": lambda c: c.multiget([OID(oidstr(conc([1, 1, 1]))), OID(oidstr(conc([2, 1, 2])))]),
    "mget150": lambda c: c.multiget([OID(oidstr(conc(DBV[i % len(DBV)][:2] + [i // len(DBV)]))) for i in range(150)]),
    "set": lambda c: c.set(OID(oidstr(conc([9, 9, 0]))), OctetString(b"written")),
    "set2": lambda c: c.set(OID(oidstr(conc([9, 8, 0]))), Integer(5)),
    "walkA": lambda c: _collect(c.walk(OID(oidstr(conc([1]))))),            # the "table"
    "walkB": lambda c: _collect(c.walk(OID(oidstr(conc([1, 1]))))),         # one of its "columns": overlaps walkA
    "walkC": lambda c: _collect(c.walk(OID(oidstr(conc([2]))))),
    "bulkA": lambda c: _collect(c.bulkwalk([OID(oidstr(conc([1])))], bulk_size=2)),
    "bulkC": lambda c: _collect(c.bulkwalk([OID(oidstr(conc([2]))), OID(oidstr(conc([3])))], bulk_size=3)),
    "table": lambda c: c.table(OID(oidstr(conc([1])))),
}


async def _collect(it):
    return [(tuple(vb.oid.nodes), vb.value.value) async for vb in it]


def res_repr(r):
    try:
        if isinstance(r, list):
            return repr([(x if isinstance(x, tuple) else (type(x).__name__, getattr(x, "value", x))) if not isinstance(x, dict) else sorted((k, str(v)) for k, v in x.items()) for x in r])
        return repr((type(r).__name__, r.value))
    except Exception:  # noqa
        return repr(r)


class Gate:
    def __init__(self, agents, events, clock, freeze=False, eager=False, lifo=False):
        self.agents, self.events, self.parked, self.clock = agents, events, [], clock
        self.lifo = lifo
        self.freeze, self.eager = freeze, eager     # freeze: the clock stands still (concurrent requests share their id); eager: the agent
        self.args = {}                              # answers at once and the network delays / reorders the answers

    async def sender(self, endpoint, packet, timeout=None, retries=None):
        op = CURRENT.get()
        fut = asyncio.get_running_loop().create_future()
        k = sum(1 for e in self.events if e["e"] == "park" and e["op"] == op) + 1
        reply = self.agents[str(endpoint.ip)].handle(bytes(packet)) if self.eager else None
        self.parked.append((op, fut, bytes(packet), endpoint, reply))
        self.events.append(dict(e="park", op=op, k=k))
        self.args.setdefault(op, set()).add((timeout, retries))      # what the transport was asked to do for this operation
        if not self.freeze:
            self.clock[0] += 1            # the clock moves on between any two requests
        return await fut

    async def release(self, op):
        # an operation may have several requests in flight: answer its oldest one (default) or its newest one (lifo)
        idx = [i for i, p in enumerate(self.parked) if p[0] == op]
        order = [idx[-1]] if (self.lifo and idx) else idx[:1]
        for i in order:
            o, fut, packet, endpoint, reply = self.parked[i]
            if o == op:
                del self.parked[i]
                ag = self.agents[str(endpoint.ip)]
                self.events.append(dict(e="release", op=op))
                if not fut.done():
                    fut.set_result(reply if reply is not None else ag.handle(packet))
                return True
        return False


async def quiesce():
    for _ in range(30):
        await asyncio.sleep(0)


async def run_schedule(sc):
    """sc: proto, ops: [[name, client index]], order: [op names in release order], clients: n"""
    import time as _t
    import puresnmp.util as U
    proto = sc["proto"]
    clock = [1000000.0]
    events = []
    nclients = sc.get("clients", 1)
    agents = {}
    clients = []
    gate = Gate(agents, events, clock, freeze=bool(sc.get("freeze")), eager=bool(sc.get("eager")), lifo=bool(sc.get("lifo")))
    from puresnmp import Client
    if sc.get("same_agent"):
        # several clients (different users, different pass-phrases, same hash) talk to ONE agent = one engine id
        from puresnmp import V3, Auth, Priv
        h = "sha1" if proto.endswith("sha") else "md5"
        people = [User(b"alice", (h, b"alice-auth-pw"), ("verifstream", b"alice-priv-pw")), User(b"bob", (h, b"bob-auth-pw-other"), ("verifstream", b"bob-priv-pw")),
                  User(b"carol", (h, b"carol-auth"), None)]
        ip = "192.0.2.1"
        agents[ip] = Agent(mk_mib(0), users=people, engine=b"\x80\x00\x1f\x88\x80engine0", boots=3, clock=lambda: clock[0])
        for i in range(nclients):
            u = people[i % len(people)]
            clients.append(Client(ip, V3(u.name.decode(), Auth(u.auth[1], u.auth[0]), Priv(u.priv[1], u.priv[0]) if u.priv else None), sender=gate.sender))
    for i in range(nclients if not sc.get("same_agent") else 0):
        ip = "192.0.2.%d" % (i + 1)
        # same_engine: the agents (other address, other data, other boots counter) announce ONE snmpEngineID - cloned devices, fail-over pairs
        agents[ip] = make_agent(mk_mib(i), proto, engine=b"\x80\x00\x1f\x88\x80engine%d" % (0 if sc.get("same_engine") else i), boots=3 + 4 * i, clock=lambda: clock[0])
        clients.append(Client(ip, creds_for(proto), sender=gate.sender))
    import puresnmp.api.raw, puresnmp_plugins.security.usm  # noqa
    _clk = patched_clock(lambda: clock[0])
    _clk.__enter__()
    tasks = {}
    try:
        late = sc.get("late", {})          # op key -> number of releases after which the operation is started

        def start(name, ci):
            key = "%s@%d" % (name, ci)
            ctx = contextvars.copy_context()
            ctx.run(CURRENT.set, key)
            tasks[key] = asyncio.get_running_loop().create_task(OPDEFS[name](clients[ci]), context=ctx)
            events.append(dict(e="start", op=key))
        for name, ci in sc["ops"]:
            if "%s@%d" % (name, ci) not in late:
                start(name, ci)
        await quiesce()
        for r, op in enumerate(sc["order"]):
            for name, ci in sc["ops"]:
                if late.get("%s@%d" % (name, ci)) == r:
                    start(name, ci)
                    await quiesce()
            await gate.release(op)
            await quiesce()
        for name, ci in sc["ops"]:
            if "%s@%d" % (name, ci) not in tasks:
                start(name, ci)
                await quiesce()
        guard = 0
        while gate.parked and guard < 500:          # drain what is left, oldest first
            await gate.release(gate.parked[0][0])
            await quiesce()
            guard += 1
        for key, t in tasks.items():
            # the transport settings every request of the operation was sent with are part of what the operation "obtained"
            args = repr(sorted(gate.args.get(key, set()), key=repr))
            if not t.done():
                t.cancel()
                events.append(dict(e="ret", op=key, kind="stuck", result="", transport=args))
                continue
            if t.exception() is not None:
                events.append(dict(e="ret", op=key, kind="exc", result=exc_name(t.exception()), transport=args))
            else:
                events.append(dict(e="ret", op=key, kind="result", result=res_repr(t.result()), transport=args))
    finally:
        _clk.__exit__(None, None, None)
    return events


def solo_results(proto, ops, clients, same_agent=False, **kw):
    out = {}
    for name, ci in ops:
        key = "%s@%d" % (name, ci)
        ev = asyncio.run(run_schedule(dict(proto=proto, ops=[[name, ci]], order=[], clients=clients, same_agent=same_agent, **kw)))
        out[key] = [e for e in ev if e["e"] == "ret"][0]
    return out


def exchanges(proto, ops, clients, same_agent=False):
    """number of requests each operation makes when alone (incl. discovery)"""
    out = {}
    for name, ci in ops:
        ev = asyncio.run(run_schedule(dict(proto=proto, ops=[[name, ci]], order=[], clients=clients, same_agent=same_agent)))
        out["%s@%d" % (name, ci)] = sum(1 for e in ev if e["e"] == "park")
    return out
