"""Thin runner around TLC: model checking, scenario generation, batch trace validation.

Every call runs under `timeout`, with its own -metadir below work/ (removed
afterwards), and returns parsed state counts, coverage, violations and the
tuples printed with PrintT (parsed by bracket matching because 16 workers
interleave their output)."""
from __future__ import annotations
import json, os, re, shutil, subprocess, tempfile, time

VERIF = os.path.dirname(os.path.dirname(os.path.abspath(__file__)))
SPEC = os.path.join(VERIF, "spec")
WORK = os.path.join(VERIF, "work")
JAVA_CP = "/opt/veriftools/tla/tla2tools.jar:/opt/veriftools/tla/CommunityModules-deps.jar"


class TlcFailure(Exception):
    """machinery failure (exit 2), never a property verdict"""


def parse_tla_value(s: str):
    """Parse a printed TLA+ value made of <<..>>, strings, ints, TRUE/FALSE, {..}, [a |-> ..] into Python."""
    pos = 0
    n = len(s)

    def ws():
        nonlocal pos
        while pos < n and s[pos] in " \t\r\n":
            pos += 1

    def val():
        nonlocal pos
        ws()
        if s.startswith("<<", pos):
            pos += 2
            out = []
            ws()
            if s.startswith(">>", pos):
                pos += 2
                return out
            while True:
                out.append(val())
                ws()
                if s.startswith(">>", pos):
                    pos += 2
                    return out
                if s[pos] != ",":
                    raise ValueError("expected , at %d in %r" % (pos, s[max(0, pos - 20):pos + 20]))
                pos += 1
        if s[pos] == "{":
            pos += 1
            out = []
            ws()
            if s[pos] == "}":
                pos += 1
                return out
            while True:
                out.append(val())
                ws()
                if s[pos] == "}":
                    pos += 1
                    return out
                pos += 1
        if s[pos] == "[":
            pos += 1
            out = {}
            while True:
                ws()
                m = re.compile(r"[A-Za-z_0-9]+").match(s, pos)
                key = m.group(0)
                pos = m.end()
                ws()
                assert s.startswith("|->", pos), s[pos:pos + 10]
                pos += 3
                out[key] = val()
                ws()
                if s[pos] == "]":
                    pos += 1
                    return out
                pos += 1
        if s[pos] == '"':
            j = pos + 1
            buf = []
            while s[j] != '"':
                if s[j] == "\\":
                    j += 1
                buf.append(s[j])
                j += 1
            pos = j + 1
            return "".join(buf)
        m = re.compile(r"-?\d+").match(s, pos)
        if m:
            pos = m.end()
            return int(m.group(0))
        m = re.compile(r"[A-Za-z_][A-Za-z_0-9]*").match(s, pos)
        if m:
            pos = m.end()
            w = m.group(0)
            return True if w == "TRUE" else False if w == "FALSE" else w
        raise ValueError("cannot parse at %d: %r" % (pos, s[pos:pos + 30]))

    v = val()
    return v


def extract_tuples(out: str, head: str):
    """all printed tuples <<"head", ...>> in TLC output (bracket matching across interleaved lines)"""
    res = []
    needle = re.compile(r'<<\s*"%s"' % re.escape(head))
    i = 0
    while True:
        m = needle.search(out, i)
        if m is None:
            break
        i = m.start()
        depth = 0
        j = i
        instr = False
        while j < len(out):
            c = out[j]
            if instr:
                if c == "\\":
                    j += 1
                elif c == '"':
                    instr = False
            elif c == '"':
                instr = True
            elif out.startswith("<<", j):
                depth += 1
                j += 1
            elif out.startswith(">>", j):
                depth -= 1
                j += 1
                if depth == 0:
                    break
            j += 1
        txt = out[i:j + 1]
        try:
            res.append(parse_tla_value(txt))
        except Exception as e:  # pragma: no cover
            raise TlcFailure("cannot parse printed tuple %r: %s" % (txt[:200], e))
        i = j + 1
    return res


def run(module: str, cfg: str, *, workers: int = 16, env: dict | None = None, timeout: int = 900,
        coverage: bool = False, extra: list | None = None, simulate: str | None = None,
        deadlock: bool = False, jvm: list | None = None, cwd: str | None = None) -> dict:
    """Run TLC on spec/<module>.tla with spec/<cfg>.  Returns a dict; raises TlcFailure on crashes / parse errors."""
    os.makedirs(WORK, exist_ok=True)
    meta = tempfile.mkdtemp(prefix="tlc-", dir=WORK)
    cmd = ["timeout", str(timeout), "java", "-XX:+UseParallelGC", "-Xmx8g", "-Xss512m"] + (jvm or []) + [
        "-cp", JAVA_CP, "tlc2.TLC", "-workers", str(workers), "-metadir", meta, "-noGenerateSpecTE",
        "-config", cfg]
    if coverage:
        cmd += ["-coverage", "1"]
    if not deadlock:
        cmd += ["-deadlock"]
    if simulate:
        cmd += ["-simulate", simulate]
    cmd += (extra or []) + [module]
    e = dict(os.environ)
    e.update(env or {})
    t0 = time.time()
    try:
        p = subprocess.run(cmd, cwd=cwd or SPEC, env=e, stdout=subprocess.PIPE, stderr=subprocess.STDOUT, text=True)
    finally:
        shutil.rmtree(meta, ignore_errors=True)
    out = p.stdout
    res = dict(rc=p.returncode, out=out, wall=time.time() - t0, cmd=" ".join(cmd))
    m = re.search(r"(\d+) states generated, (\d+) distinct states found", out)
    res["generated"] = int(m.group(1)) if m else 0
    res["distinct"] = int(m.group(2)) if m else 0
    m = re.search(r"The depth of the complete state graph search is (\d+)", out)
    res["depth"] = int(m.group(1)) if m else 0
    res["violated"] = re.findall(r"Invariant (\S+) is violated", out) + re.findall(r"Action property (\S+) is violated", out) \
        + (["<temporal>"] if "Temporal properties were violated" in out else [])
    res["finished"] = "Model checking completed" in out or "Finished in" in out or "Finished computing" in out
    if p.returncode == 124:
        raise TlcFailure("TLC timed out after %ds: %s" % (timeout, res["cmd"]))
    # TLC exit codes: 0 ok, 10/11 assumption/deadlock, 12 safety violation, 13 liveness violation; anything else = error
    if p.returncode not in (0, 12, 13):
        raise TlcFailure("TLC error (rc=%d) in %s/%s:\n%s" % (p.returncode, module, cfg, out[-3000:]))
    if coverage:
        cov = {}
        for mm in re.finditer(r"^<(\w+) line [^>]*>: (\d+):(\d+)", out, re.M):
            cov[mm.group(1)] = cov.get(mm.group(1), 0) + int(mm.group(3))
        res["coverage"] = cov
    return res


def counterexample(out: str) -> list:
    """state texts of an error trace"""
    parts = re.split(r"^State \d+: .*$", out, flags=re.M)
    return [p.strip() for p in parts[1:]]


def validate_traces(module: str, cfg: str, traces: list, *, name: str, workers: int = 16, timeout: int = 1800,
                    env: dict | None = None, chunk: int | None = None) -> dict:
    """Batch trace validation: writes traces to a JSON file, runs the trace spec, returns
    verdicts {tid: value} from <<"VERDICT", tid, ...>> tuples plus state counts."""
    os.makedirs(WORK, exist_ok=True)
    verdicts = {}
    tot = dict(generated=0, distinct=0, wall=0.0)
    chunks = [traces] if not chunk else [traces[i:i + chunk] for i in range(0, len(traces), chunk)]
    base = 0
    for ci, part in enumerate(chunks):
        path = os.path.join(WORK, "%s-traces-%d-%d.json" % (name, os.getpid(), ci))
        with open(path, "w") as f:
            json.dump(part, f)
        e = dict(env or {})
        e["TRACE_FILE"] = path
        try:
            r = run(module, cfg, workers=workers, env=e, timeout=timeout)
        finally:
            if not os.environ.get("VERIF_KEEP"):
                try:
                    os.remove(path)
                except OSError:
                    pass
        if r["violated"] or not r["finished"]:
            raise TlcFailure("trace validation run failed (%s/%s): %s" % (module, cfg, r["out"][-3000:]))
        for t in extract_tuples(r["out"], "VERDICT"):
            verdicts[base + t[1]] = t[2:]
        if len([1 for t in extract_tuples(r["out"], "VERDICT")]) != len(part):
            raise TlcFailure("trace validation produced %d verdicts for %d traces (%s): %s" % (
                len(extract_tuples(r["out"], "VERDICT")), len(part), module, r["out"][-2000:]))
        base += len(part)
        for k in ("generated", "distinct", "wall"):
            tot[k] += r[k]
    tot["verdicts"] = verdicts
    return tot


def write_cfg(name: str, *, spec: str = "Spec", constants: dict | None = None, invariants=(), constraints=(),
              properties=(), view: str | None = None, init_next=None, postcondition=None) -> str:
    """Write work/<name>.cfg and return its absolute path.  constants: name -> literal text, or ("<-", Def)."""
    os.makedirs(WORK, exist_ok=True)
    lines = []
    if init_next:
        lines += ["INIT %s" % init_next[0], "NEXT %s" % init_next[1]]
    else:
        lines.append("SPECIFICATION %s" % spec)
    if constants:
        lines.append("CONSTANTS")
        for k, v in constants.items():
            if isinstance(v, tuple):
                lines.append("  %s <- %s" % (k, v[1]))
            elif isinstance(v, bool):
                lines.append("  %s = %s" % (k, "TRUE" if v else "FALSE"))
            else:
                lines.append("  %s = %s" % (k, v))
    for i in invariants:
        lines.append("INVARIANT %s" % i)
    for c in constraints:
        lines.append("CONSTRAINT %s" % c)
    for p in properties:
        lines.append("PROPERTY %s" % p)
    if view:
        lines.append("VIEW %s" % view)
    if postcondition:
        lines.append("POSTCONDITION %s" % postcondition)
    lines.append("CHECK_DEADLOCK FALSE")
    path = os.path.join(WORK, name + ".cfg")
    with open(path, "w") as f:
        f.write("\n".join(lines) + "\n")
    return path


def simulate(module: str, cfg: str, *, num: int, depth: int, seed: int = 0, timeout: int = 600) -> list:
    """TLC random simulation: returns behaviours [[dict(action=, args=[...], state={var: value})...]] parsed from the
    per-behaviour TLA+ files TLC writes (`\\* <Action(args) line ...>` + `STATE_n == /\\ var = value ...`)."""
    os.makedirs(WORK, exist_ok=True)
    d = tempfile.mkdtemp(prefix="sim-", dir=WORK)
    meta = tempfile.mkdtemp(prefix="tlc-", dir=WORK)
    cmd = ["timeout", str(timeout), "java", "-XX:+UseParallelGC", "-Xss512m", "-cp", JAVA_CP, "tlc2.TLC", "-workers", "1", "-deadlock", "-metadir", meta,
           "-noGenerateSpecTE", "-seed", str(seed), "-simulate", "file=%s/b,num=%d" % (d, num), "-depth", str(depth), "-config", cfg, module]
    try:
        p = subprocess.run(cmd, cwd=SPEC, stdout=subprocess.PIPE, stderr=subprocess.STDOUT, text=True)
        if p.returncode not in (0, 12):
            raise TlcFailure("TLC simulation failed rc=%d: %s" % (p.returncode, p.stdout[-2000:]))
        out = []
        for fn in sorted(os.listdir(d), key=lambda x: [int(t) if t.isdigit() else t for t in re.split(r"(\d+)", x)]):
            txt = open(os.path.join(d, fn)).read()
            beh = []
            for m in re.finditer(r"\\\* <(\w+)(?:\(([^>]*?)\))? line [^>]*>\s*\nSTATE_\d+ ==\s*\n((?:/\\ .*\n(?:  .*\n)*)+)", txt):
                act, args, body = m.group(1), m.group(2), m.group(3)
                st = {}
                for vm in re.finditer(r"/\\ (\w+) = ((?:.*\n)(?:  .*\n)*)", body):
                    try:
                        st[vm.group(1)] = parse_tla_value(vm.group(2).strip())
                    except Exception:
                        st[vm.group(1)] = vm.group(2).strip()
                beh.append(dict(action=act, args=[parse_tla_value(a.strip()) for a in args.split(",")] if args else [], state=st))
            out.append(beh)
        return out
    finally:
        shutil.rmtree(d, ignore_errors=True)
        shutil.rmtree(meta, ignore_errors=True)
