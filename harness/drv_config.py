"""Driver for C18: interprets a nested history with real `with client.reconfigure(...)` blocks."""
from __future__ import annotations
import asyncio
from common import *
from x690.types import ObjectIdentifier as OID


class Marker(Exception):
    pass


class MarkerBase(BaseException):
    """a block may also be left by something that is not an Exception (KeyboardInterrupt, SystemExit, a cancellation)"""


CTX_ENGINES = {"": b"", "e1": b"\x80\x00\x00\x01\x02ctxengine1"}


def mk_creds(name):
    from puresnmp import V1, V2C, V3
    fam, who = name.split(":")
    return {"v1": V1, "v2c": V2C}[fam](who) if fam != "v3" else V3(who)


def kwargs(kv):
    out = {k: v for k, v in kv.items() if k in ("timeout", "retries")}
    if "creds" in kv:
        out["credentials"] = mk_creds(kv["creds"])
    if "ctx" in kv:
        from puresnmp.api.raw import Context
        eng, name = kv["ctx"].split("/")
        out["context"] = Context(CTX_ENGINES[eng], name.encode())
    return out


async def run_history(tree):
    from puresnmp import Client
    events = []
    agents = {}
    seen = []
    probes = [0]       # discovery probes seen so far
    wire = []          # (timeout, retries) of EVERY datagram handed to the transport, discovery probes included

    async def sender(endpoint, packet, timeout=None, retries=None):
        packet = bytes(packet)
        tag, cs, ce, _ = dec_tlv(packet)
        k = kids(packet, cs, ce)
        ver = dec_int(packet[k[0][1]:k[0][2]])
        if ver == 3:
            q = parse_v3(packet)
            ag = agents.setdefault("v3", Agent({(1, 3, 6, 1, 2, 1, 1, 1, 0): enc_int(1)}, users=[User(b"u"), User(b"w")]))
            if q["engine"] == b"":
                probes[0] += 1
            wire.append([timeout if timeout is not None else -1, retries if retries is not None else -1])
            if q["engine"] != b"":
                ce = q.get("ctxengine", b"")
                eng = "" if ce == ag.engine else ([k for k, v in CTX_ENGINES.items() if v == ce] + ["?"])[0]
                seen.append(dict(timeout=timeout, retries=retries, version="v3", ident="v3:" + q["user"].decode(), ctx=eng + "/" + q.get("ctxname", b"").decode("latin1")))
            return ag.handle(packet)
        q = parse_community(packet)
        wire.append([timeout if timeout is not None else -1, retries if retries is not None else -1])
        seen.append(dict(timeout=timeout, retries=retries, version={0: "v1", 1: "v2c"}[ver], ident={0: "v1", 1: "v2c"}[ver] + ":" + q["community"].decode()))
        ag = agents.setdefault((ver, q["community"]), Agent({(1, 3, 6, 1, 2, 1, 1, 1, 0): enc_int(1)}, version=ver, community=q["community"]))
        return ag.handle(packet)
    c = Client("192.0.2.1", mk_creds("v2c:a"), sender=sender)

    async def go(items):
        for it in items:
            kind = it[0]
            if kind == "req":
                n0 = len(seen)
                w0 = len(wire)
                p0 = probes[0]
                try:
                    await c.multiget([OID("1.3.6.1.2.1.1.1.0")])
                    ok = True
                except Exception:  # noqa
                    ok = False
                obs = dict(dict(ctx="-"), **seen[-1]) if len(seen) > n0 else dict(timeout=-1, retries=-1, version="none", ident="none", ctx="-")
                # the version is the one the *message layer* spoke; for v1/v2c it is also in ident
                events.append(dict(e="request", ok=ok and len(seen) > n0, wire=[list(x) for x in wire[w0:]], probes=probes[0] - p0, **obs))
            elif kind == "cfg":
                try:
                    c.configure(**kwargs(it[1]))
                    raised = ""
                except Exception as ex:  # noqa
                    raised = exc_name(ex)
                events.append(dict(e="configure", kv=it[1], raised=raised))
            elif kind == "cfgx":
                try:
                    c.configure(bogus_setting=1, **kwargs(it[1]))
                    raised = ""
                except Exception as ex:  # noqa
                    raised = exc_name(ex)
                events.append(dict(e="configure_unknown", kv=it[1], raised=raised))
            elif kind == "blockx":
                try:
                    with c.reconfigure(bogus_setting=1, **kwargs(it[1])):
                        raised = ""
                except Exception as ex:  # noqa
                    raised = exc_name(ex)
                events.append(dict(e="enter_unknown", kv=it[1], raised=raised))
            elif kind == "block":
                _, kv, body, how = it
                observed = "normal"
                try:
                    cm = c.reconfigure(**kwargs(kv))
                    with cm:
                        events.append(dict(e="enter", kv=kv, raised=""))
                        await go(body)
                        if how == "exc":
                            raise Marker()
                        if how == "base":
                            raise MarkerBase()
                        if how == "cancel":
                            raise asyncio.CancelledError()      # what a cancellation / wait_for timeout delivers at an await inside the block
                except Marker:
                    observed = "exc"
                except MarkerBase:
                    observed = "base"
                except asyncio.CancelledError:
                    observed = "cancel"
                events.append(dict(e="exit", how=how, observed=observed))
    await go(tree)
    return events


def run_all(trees):
    async def main():
        return [dict(scenario=dict(tree=t), events=await run_history(t)) for t in trees]
    return asyncio.run(main())
